package main

import (
	"fmt"
	"os"
	"go/ast"
	"go/constant"
	"go/token"
	"go/types"
	"strconv"
	"strings"

	"golang.org/x/tools/go/ssa"
)

// SVal is a spec-level value with its Go type (nil for sort-only values).
type SVal struct {
	V  Val
	Ty types.Type
}

type specEnv struct {
	fx     *FnExec
	fr     *Frame
	st     *State
	old    *State
	vars   map[string]SVal
	at     *ssa.BasicBlock // for local variable lookup
	pkg    *types.Package
	depth  int
	oldEnv *specEnv
	hdrEnv *specEnv
	preSt  *State // state on entry to the loop whose invariant is being evaluated: pre(e)
	witFr  *Frame // frame whose loop variables serve as existential witness hints (survives macro expansion)
	atInside bool // `at` denotes a point inside the block (after its phis and earlier instructions), not its start
	lastQFacts []Term // heap typing facts about the terms of the most recent quantifier body
	hints  bool   // the clause is being evaluated as a goal to prove (existential witness hints are added); assumptions stay plain
}

func basicType(k types.BasicKind) types.Type { return types.Typ[k] }

func (fr *Frame) specEnv(st *State, at *ssa.BasicBlock, extra map[string]SVal) *specEnv {
	env := &specEnv{fx: fr.fx, fr: fr, st: st, old: fr.fx.entry, vars: map[string]SVal{}, at: at}
	if fr.fn.Pkg != nil {
		env.pkg = fr.fn.Pkg.Pkg
	} else if fr.fn.Parent() != nil && fr.fn.Parent().Pkg != nil {
		env.pkg = fr.fn.Parent().Pkg.Pkg
	}
	for k, v := range extra {
		env.vars[k] = v
	}
	return env
}

func (e *specEnv) child() *specEnv {
	n := *e
	n.vars = map[string]SVal{}
	for k, v := range e.vars {
		n.vars[k] = v
	}
	return &n
}

func (e *specEnv) evalBool(x ast.Expr) (Term, error) {
	v, err := e.eval(x)
	if err != nil {
		return Term{}, err
	}
	t := e.fx.materialize(v.V, v.Ty)
	if t.Sort != SBool {
		return Term{}, fmt.Errorf("expression is not boolean (sort %s)", t.Sort)
	}
	return t, nil
}

func (e *specEnv) evalTerm(x ast.Expr) (Term, error) {
	v, err := e.eval(x)
	if err != nil {
		return Term{}, err
	}
	return e.fx.materialize(v.V, v.Ty), nil
}

func sv(t Term, ty types.Type) SVal { return SVal{V: tv(t), Ty: ty} }

func (e *specEnv) lookupIdent(name string) (SVal, error) {
	if v, ok := e.vars[name]; ok {
		return v, nil
	}
	switch name {
	case "true":
		return sv(True, types.Typ[types.Bool]), nil
	case "false":
		return sv(False, types.Typ[types.Bool]), nil
	case "nil":
		return SVal{V: Val{Known: true}, Ty: types.Typ[types.UntypedNil]}, nil
	}
	if e.fr != nil {
		if v, ok := e.fr.lookupLocal(name, e.at, e.st); ok {
			if os.Getenv("GOVC_DEBUG") != "" {
				fmt.Fprintf(os.Stderr, "lookupLocal %s -> %q lv=%v ty=%v\n", name, v.V.T.S, v.V.LV, v.Ty)
			}
			return v, nil
		}
	}
	// package-level objects
	if e.pkg != nil {
		if obj := e.pkg.Scope().Lookup(name); obj != nil {
			return e.objVal(obj)
		}
	}
	return SVal{}, fmt.Errorf("unknown identifier %q", name)
}

func (e *specEnv) objVal(obj types.Object) (SVal, error) {
	switch o := obj.(type) {
	case *types.Const:
		return sv(constantTerm(o.Val(), o.Type()), o.Type()), nil
	case *types.Var:
		// package-level variable
		if e.fx.eng.prog != nil {
			if sp := e.fx.eng.prog.Package(o.Pkg()); sp != nil {
				if g, ok := sp.Members[o.Name()].(*ssa.Global); ok {
					gv := e.fx.globalVal(g)
					if gv.LV != nil {
						t := e.fx.readLV(e.st, gv.LV)
						return sv(t, o.Type()), nil
					}
					return SVal{V: gv, Ty: o.Type()}, nil
				}
			}
		}
	}
	if fo, ok := obj.(*types.Func); ok && e.fx.eng.prog != nil {
		// a package-level function used as a value: the constant that stands for it wherever it is passed around
		if fn := e.fx.eng.prog.FuncValue(fo); fn != nil {
			return SVal{V: Val{Fn: fn, Known: true}, Ty: fo.Type()}, nil
		}
	}
	return SVal{}, fmt.Errorf("unsupported package object %s", obj.Name())
}

func constantTerm(v constant.Value, t types.Type) Term {
	switch v.Kind() {
	case constant.Bool:
		if constant.BoolVal(v) {
			return True
		}
		return False
	case constant.String:
		return StrLit(constant.StringVal(v))
	case constant.Int:
		s := v.ExactString()
		if strings.HasPrefix(s, "-") {
			return Term{"(- " + s[1:] + ")", SInt}
		}
		return Term{s, SInt}
	}
	return Term{"0", SInt}
}

// lookupLocal resolves a source-level variable name at block `at`.
func (fr *Frame) lookupLocal(name string, at *ssa.BasicBlock, st *State) (SVal, bool) {
	fn := fr.fn
	// a captured variable is a cell: its value is whatever the cell holds in the state at hand, not an earlier load
	for _, fv := range fn.FreeVars {
		if fv.Name() == name {
			if pt, ok := fv.Type().Underlying().(*types.Pointer); ok && !isStruct(pt.Elem()) && !isArray(pt.Elem()) {
				lv := fr.fx.pointee(fr.val(fv), pt.Elem())
				return sv(fr.fx.readLV(st, lv), pt.Elem()), true
			}
		}
	}
	if at != nil {
		// phis in `at`
		for _, in := range at.Instrs {
			phi, ok := in.(*ssa.Phi)
			if !ok {
				break
			}
			if phi.Comment == name {
				return SVal{V: fr.val(phi), Ty: phi.Type()}, true
			}
		}
		// range-over-map loops have no index phi: the ghost iteration counter plays its part
		if name == "rangeindex" {
			for _, in := range at.Instrs {
				if nx, ok := in.(*ssa.Next); ok && !nx.IsString {
					if rg, ok := nx.Iter.(*ssa.Range); ok && isMap(rg.X.Type()) {
						k := fr.fx.eng.iterKey(rg)
						return sv(fr.fx.heapGet(st, k, SInt), types.Typ[types.Int]), true
					}
				}
			}
		}
		// deepest dominating definition
		var best ssa.Value
		bestAddr := false
		bestDepth := -1
		depth := func(b *ssa.BasicBlock) int {
			d := 0
			for x := b; x != nil; x = x.Idom() {
				d++
			}
			return d
		}
		// candidates: every debug reference to the variable whose value is available at `at`
		// (its defining block dominates `at`); computed values win over constants, deeper definitions over shallower.
		defBlock := func(v ssa.Value) *ssa.BasicBlock {
			if in, ok := v.(ssa.Instruction); ok {
				return in.Block()
			}
			return fn.Blocks[0]
		}
		bestConst := true
		for _, b := range fn.Blocks {
			for _, in := range b.Instrs {
				switch x := in.(type) {
				case *ssa.Phi:
					if x.Comment == name && b != at && b.Dominates(at) {
						d := depth(b)
						if best == nil || bestConst || d >= bestDepth {
							best, bestAddr, bestDepth, bestConst = x, false, d, false
						}
					}
				case *ssa.DebugRef:
					id, ok := x.Expr.(*ast.Ident)
					if !ok || id.Name != name {
						continue
					}
					if obj := x.Object(); obj != nil {
						tv, isVar := obj.(*types.Var)
						if !isVar || tv.IsField() {
							continue
						}
					}
					db := defBlock(x.X)
					if db == at {
						if _, isPhi := x.X.(*ssa.Phi); !isPhi {
							if _, done := fr.vals[x.X]; !done || !fr.atInside {
								continue // defined inside the block after the phis: not available at its start
							}
						}
					}
					if !db.Dominates(at) {
						continue
					}
					_, isConst := x.X.(*ssa.Const)
					d := depth(db)
					if isConst {
						// a constant reference is only meaningful if it textually dominates
						if !b.Dominates(at) || b == at {
							continue
						}
						if best == nil {
							best, bestAddr, bestDepth, bestConst = x.X, x.IsAddr, d, true
						}
						continue
					}
					if best == nil || bestConst || d >= bestDepth {
						best, bestAddr, bestDepth, bestConst = x.X, x.IsAddr, d, false
					}
				}
			}
		}
		if best != nil {
			if bestAddr {
				pv := fr.val(best)
				elem := best.Type().Underlying().(*types.Pointer).Elem()
				if isStruct(elem) || isArray(elem) {
					return SVal{V: pv, Ty: best.Type()}, true // behaves like pointer; selector handles both
				}
				lv := fr.fx.pointee(pv, elem)
				return sv(fr.fx.readLV(st, lv), elem), true
			}
			if os.Getenv("GOVC_DEBUG") != "" {
				fmt.Fprintf(os.Stderr, "best for %s = %s (%T) in %s -> %q\n", name, best.Name(), best, fr.fn.Name(), fr.val(best).T.S)
			}
			return SVal{V: fr.val(best), Ty: best.Type()}, true
		}
	}
	for _, p := range fn.Params {
		if p.Name() == name {
			return SVal{V: fr.val(p), Ty: p.Type()}, true
		}
	}
	for _, fv := range fn.FreeVars {
		if fv.Name() == name {
			v := fr.val(fv)
			// captured variables are pointers to cells
			if pt, ok := fv.Type().Underlying().(*types.Pointer); ok {
				if !isStruct(pt.Elem()) && !isArray(pt.Elem()) {
					lv := fr.fx.pointee(v, pt.Elem())
					return sv(fr.fx.readLV(st, lv), pt.Elem()), true
				}
			}
			return SVal{V: v, Ty: fv.Type()}, true
		}
	}
	// a body local that is not (yet) defined on the paths reaching `at`: in a postcondition it stands for an
	// arbitrary value of its type (the clause has to hold whatever it is), so that one `ensures` can speak about
	// locals that only some returns define
	if at != nil && fr.atInside {
		for _, b := range fn.Blocks {
			for _, in := range b.Instrs {
				if x, ok := in.(*ssa.DebugRef); ok && !x.IsAddr {
					if id, ok := x.Expr.(*ast.Ident); ok && id.Name == name {
						if tv, isVar := x.Object().(*types.Var); isVar && !tv.IsField() {
							if fr.fx.ctx.quant > 0 {
								return SVal{}, false
							}
							c := fr.fx.ctx.Const("undef."+fn.Name()+"."+name, sortOf(x.X.Type()))
							return SVal{V: Val{T: c}, Ty: x.X.Type()}, true
						}
					}
				}
			}
		}
	}
	return SVal{}, false
}

// eval evaluates a specification expression; slice-typed results carry the array-typing fact (see wellFormed).
func (e *specEnv) eval(x ast.Expr) (SVal, error) {
	v, err := e.eval0(x)
	if err == nil && v.Ty != nil && v.V.T.Sort == SInt && v.V.T.S != "" && e.st != nil && e.fx.ctx.quant == 0 && !strings.Contains(v.V.T.S, "|q!") && isMap(v.Ty) {
		switch x.(type) {
		case *ast.SelectorExpr, *ast.IndexExpr, *ast.Ident:
			e.fx.wellFormed(e.st, v.V.T, v.Ty) // a map read from the heap (or a map-typed variable): closed heap, map typing
		}
	}
	if err == nil && v.Ty != nil && v.V.T.Sort == SSlice && e.st != nil && e.fx.ctx.quant == 0 && !strings.Contains(v.V.T.S, "|q!") {
		if _, ok := v.Ty.Underlying().(*types.Slice); ok {
			switch x.(type) {
			case *ast.SelectorExpr, *ast.IndexExpr:
				// a slice read from the heap of e.st is well-formed there (closed heap, element typing)
				e.fx.wellFormed(e.st, v.V.T, v.Ty)
			}
		}
	}
	return v, err
}

func (e *specEnv) eval0(x ast.Expr) (SVal, error) {
	fx := e.fx
	switch n := x.(type) {
	case *ast.ParenExpr:
		return e.eval(n.X)
	case *ast.Ident:
		return e.lookupIdent(n.Name)
	case *ast.BasicLit:
		switch n.Kind {
		case token.INT:
			return sv(Term{n.Value, SInt}, types.Typ[types.Int]), nil
		case token.STRING:
			s, err := strconv.Unquote(n.Value)
			if err != nil {
				return SVal{}, err
			}
			return sv(StrLit(s), types.Typ[types.String]), nil
		case token.CHAR:
			s, err := strconv.Unquote(n.Value)
			if err != nil {
				return SVal{}, err
			}
			return sv(Int(int64([]rune(s)[0])), types.Typ[types.Int]), nil
		}
		return SVal{}, fmt.Errorf("unsupported literal %s", n.Value)
	case *ast.UnaryExpr:
		v, err := e.eval(n.X)
		if err != nil {
			return SVal{}, err
		}
		t := fx.materialize(v.V, v.Ty)
		switch n.Op {
		case token.NOT:
			return sv(Not(t), types.Typ[types.Bool]), nil
		case token.SUB:
			return sv(Term{"(- " + t.S + ")", t.Sort}, v.Ty), nil
		case token.AND:
			return SVal{}, fmt.Errorf("address-of not supported in specs")
		}
		return SVal{}, fmt.Errorf("unsupported unary %s", n.Op)
	case *ast.StarExpr:
		v, err := e.eval(n.X)
		if err != nil {
			return SVal{}, err
		}
		return e.deref(v)
	case *ast.BinaryExpr:
		return e.binary(n)
	case *ast.SelectorExpr:
		// package-qualified?
		if id, ok := n.X.(*ast.Ident); ok {
			if _, bound := e.vars[id.Name]; !bound && e.pkg != nil {
				if _, isLocal := e.tryLocal(id.Name); !isLocal {
					for _, imp := range e.pkg.Imports() {
						if imp.Name() == id.Name {
							if obj := imp.Scope().Lookup(n.Sel.Name); obj != nil {
								return e.objVal(obj)
							}
						}
					}
				}
			}
		}
		v, err := e.eval(n.X)
		if err != nil {
			return SVal{}, err
		}
		return e.selectField(v, n.Sel.Name)
	case *ast.IndexExpr:
		b, err := e.eval(n.X)
		if err != nil {
			return SVal{}, err
		}
		i, err := e.eval(n.Index)
		if err != nil {
			return SVal{}, err
		}
		return e.indexVal(b, i)
	case *ast.SliceExpr:
		b, err := e.eval(n.X)
		if err != nil {
			return SVal{}, err
		}
		bt := fx.materialize(b.V, b.Ty)
		var lo, hi Term
		lo = Int(0)
		if n.Low != nil {
			l, err := e.evalTerm(n.Low)
			if err != nil {
				return SVal{}, err
			}
			lo = l
		}
		if bt.Sort == SString {
			hi = Term{"(str.len " + bt.S + ")", SInt}
			if n.High != nil {
				h, err := e.evalTerm(n.High)
				if err != nil {
					return SVal{}, err
				}
				hi = h
			}
			return sv(Term{"(str.substr " + bt.S + " " + lo.S + " (- " + hi.S + " " + lo.S + "))", SString}, b.Ty), nil
		}
		if bt.Sort == SSlice {
			hi = SlLen(bt)
			if n.High != nil {
				h, err := e.evalTerm(n.High)
				if err != nil {
					return SVal{}, err
				}
				hi = h
			}
			return sv(MkSlice(SlBase(bt), Add(SlOff(bt), lo), Sub(hi, lo), Sub(SlCap(bt), lo)), b.Ty), nil
		}
		return SVal{}, fmt.Errorf("cannot slice sort %s", bt.Sort)
	case *ast.CallExpr:
		return e.call(n)
	}
	return SVal{}, fmt.Errorf("unsupported spec expression %T", x)
}

func (e *specEnv) tryLocal(name string) (SVal, bool) {
	if e.fr == nil {
		return SVal{}, false
	}
	return e.fr.lookupLocal(name, e.at, e.st)
}

func (e *specEnv) deref(v SVal) (SVal, error) {
	fx := e.fx
	pt, ok := v.Ty.Underlying().(*types.Pointer)
	if !ok {
		return SVal{}, fmt.Errorf("deref of non-pointer %v", v.Ty)
	}
	if isStruct(pt.Elem()) || isArray(pt.Elem()) {
		return SVal{V: v.V, Ty: pt.Elem()}, nil // struct "value" addressed by its ref
	}
	lv := fx.pointee(v.V, pt.Elem())
	return sv(fx.readLV(e.st, lv), pt.Elem()), nil
}

func (e *specEnv) selectField(v SVal, name string) (SVal, error) {
	fx := e.fx
	if v.V.LS != nil {
		for _, f := range structFields(v.V.LS.Ty) {
			if f.Name() == name {
				k := v.V.LS.Key + "." + name
				if isStruct(f.Type()) {
					return SVal{V: Val{LS: &LocalStruct{Key: k, Ty: f.Type()}, Known: true}, Ty: f.Type()}, nil
				}
				return sv(fx.readLV(e.st, fx.localLV(k, f.Type())), f.Type()), nil
			}
		}
		return SVal{}, fmt.Errorf("no field %s in local struct %s", name, v.V.LS.Key)
	}
	if v.Ty == nil {
		return SVal{}, fmt.Errorf("selector .%s on untyped value", name)
	}
	t := v.Ty
	if pt, ok := t.Underlying().(*types.Pointer); ok {
		t = pt.Elem()
	}
	st, ok := t.Underlying().(*types.Struct)
	if !ok {
		return SVal{}, fmt.Errorf("selector .%s on non-struct %v", name, v.Ty)
	}
	ref := fx.materialize(v.V, v.Ty)
	for i := 0; i < st.NumFields(); i++ {
		f := st.Field(i)
		if f.Name() == name {
			key := fieldKey(t, name)
			if isStruct(f.Type()) || isArray(f.Type()) {
				return sv(fx.subRef(ref, key), f.Type()), nil
			}
			lv := &LV{Key: key, Ref: ref, Sort: sortOf(f.Type()), IsRef: isRefTy(f.Type())}
			return sv(fx.readLV(e.st, lv), f.Type()), nil
		}
	}
	// embedded fields
	for i := 0; i < st.NumFields(); i++ {
		f := st.Field(i)
		if f.Embedded() {
			key := fieldKey(t, f.Name())
			var inner SVal
			if isStruct(f.Type()) {
				inner = sv(fx.subRef(ref, key), f.Type())
			} else {
				lv := &LV{Key: key, Ref: ref, Sort: sortOf(f.Type()), IsRef: isRefTy(f.Type())}
				inner = sv(fx.readLV(e.st, lv), f.Type())
			}
			if r, err := e.selectField(inner, name); err == nil {
				return r, nil
			}
		}
	}
	return SVal{}, fmt.Errorf("no field %s in %v", name, t)
}

func (e *specEnv) indexVal(b, i SVal) (SVal, error) {
	fx := e.fx
	bt := fx.materialize(b.V, b.Ty)
	it := fx.materialize(i.V, i.Ty)
	if bt.Sort == SString {
		return sv(Term{"(str.to_code (str.at " + bt.S + " " + it.S + "))", SInt}, types.Typ[types.Int]), nil
	}
	if b.Ty == nil {
		return SVal{}, fmt.Errorf("index on untyped value")
	}
	switch t := b.Ty.Underlying().(type) {
	case *types.Slice:
		es := sortOf(t.Elem())
		idx := Add(SlOff(bt), it)
		lv := &LV{Key: elemKey(es), Ref: SlBase(bt), Idx: &idx, Sort: es, IsRef: isRefTy(t.Elem())}
		return sv(fx.readLV(e.st, lv), t.Elem()), nil
	case *types.Map:
		_, _, _, vs := mapKeys(t)
		in := And(Not(Eq(bt, Nil)), Select(fx.mapDom(e.st, t, bt), it, SBool))
		return sv(Ite(in, Select(fx.mapVals(e.st, t, bt), it, vs), zeroOf(t.Elem())), t.Elem()), nil
	case *types.Pointer:
		if at, ok := t.Elem().Underlying().(*types.Array); ok {
			es := sortOf(at.Elem())
			lv := &LV{Key: elemKey(es), Ref: bt, Idx: &it, Sort: es}
			return sv(fx.readLV(e.st, lv), at.Elem()), nil
		}
	case *types.Array:
		es := sortOf(t.Elem())
		lv := &LV{Key: elemKey(es), Ref: bt, Idx: &it, Sort: es}
		return sv(fx.readLV(e.st, lv), t.Elem()), nil
	}
	return SVal{}, fmt.Errorf("cannot index %v", b.Ty)
}

func isNilSVal(v SVal) bool {
	if b, ok := v.Ty.(*types.Basic); ok && b.Kind() == types.UntypedNil {
		return true
	}
	return false
}

func (e *specEnv) binary(n *ast.BinaryExpr) (SVal, error) {
	fx := e.fx
	l, err := e.eval(n.X)
	if err != nil {
		return SVal{}, err
	}
	r, err := e.eval(n.Y)
	if err != nil {
		return SVal{}, err
	}
	boolT := types.Typ[types.Bool]
	if isNilSVal(l) && !isNilSVal(r) {
		l, r = r, l
	}
	lt := fx.materialize(l.V, l.Ty)
	var rt Term
	if isNilSVal(r) {
		switch lt.Sort {
		case SSlice:
			// s == nil  <=> base == 0
			lt = SlBase(lt)
			rt = Nil
		case SIface:
			lt = IfTag(lt)
			rt = Nil
		default:
			rt = Nil
		}
	} else {
		rt = fx.materialize(r.V, r.Ty)
	}
	switch n.Op {
	case token.LAND:
		return sv(And(lt, rt), boolT), nil
	case token.LOR:
		return sv(Or(lt, rt), boolT), nil
	case token.EQL:
		if lt.Sort != rt.Sort {
			return SVal{}, fmt.Errorf("sort mismatch in ==: %s vs %s", lt.Sort, rt.Sort)
		}
		return sv(Eq(lt, rt), boolT), nil
	case token.NEQ:
		if lt.Sort != rt.Sort {
			return SVal{}, fmt.Errorf("sort mismatch in !=: %s vs %s", lt.Sort, rt.Sort)
		}
		return sv(Not(Eq(lt, rt)), boolT), nil
	case token.LSS, token.LEQ, token.GTR, token.GEQ:
		if lt.Sort == SString {
			switch n.Op {
			case token.LSS:
				return sv(Term{"(str.< " + lt.S + " " + rt.S + ")", SBool}, boolT), nil
			case token.LEQ:
				return sv(Term{"(str.<= " + lt.S + " " + rt.S + ")", SBool}, boolT), nil
			case token.GTR:
				return sv(Term{"(str.< " + rt.S + " " + lt.S + ")", SBool}, boolT), nil
			default:
				return sv(Term{"(str.<= " + rt.S + " " + lt.S + ")", SBool}, boolT), nil
			}
		}
		op := map[token.Token]string{token.LSS: "<", token.LEQ: "<=", token.GTR: ">", token.GEQ: ">="}[n.Op]
		return sv(Term{"(" + op + " " + lt.S + " " + rt.S + ")", SBool}, boolT), nil
	case token.ADD:
		if lt.Sort == SString {
			return sv(Term{"(str.++ " + lt.S + " " + rt.S + ")", SString}, l.Ty), nil
		}
		return sv(Add(lt, rt), l.Ty), nil
	case token.SUB:
		return sv(Sub(lt, rt), l.Ty), nil
	case token.MUL:
		return sv(Term{"(* " + lt.S + " " + rt.S + ")", lt.Sort}, l.Ty), nil
	case token.QUO:
		return sv(Term{"(godiv " + lt.S + " " + rt.S + ")", SInt}, l.Ty), nil
	case token.REM:
		return sv(Term{"(gomod " + lt.S + " " + rt.S + ")", SInt}, l.Ty), nil
	}
	return SVal{}, fmt.Errorf("unsupported binary operator %s", n.Op)
}

func specSort(ty string) (Sort, error) {
	switch ty {
	case "int", "ref", "byte", "int64", "int32":
		return SInt, nil
	case "bool":
		return SBool, nil
	case "string":
		return SString, nil
	case "slice":
		return SSlice, nil
	case "iface":
		return SIface, nil
	case "intarr":
		return ArraySort(SInt, SInt), nil
	case "strset":
		return ArraySort(SString, SBool), nil
	case "intset":
		return ArraySort(SInt, SBool), nil
	}
	return "", fmt.Errorf("unknown spec type %q", ty)
}

// declareSpecFunc emits a define-fun(-rec) for a heap-free spec function (used for recursive ones).
func (e *specEnv) declareSpecFunc(sf *SpecFunc) (string, error) {
	fx := e.fx
	id := smtIdent("spec!" + sf.Name)
	if fx.ctx.decl[id] {
		return id, nil
	}
	fx.ctx.decl[id] = true // before body evaluation: recursion
	var ps []string
	env := &specEnv{fx: fx, fr: nil, st: e.st, old: e.old, vars: map[string]SVal{}, pkg: e.pkg}
	for _, p := range sf.Params {
		s, err := specSort(p.Type)
		if err != nil {
			return "", err
		}
		pid := smtIdent("p!" + p.Name)
		ps = append(ps, fmt.Sprintf("(%s %s)", pid, s))
		env.vars[p.Name] = sv(Term{pid, s}, specGoType(p.Type))
	}
	rs, err := specSort(sf.Result)
	if err != nil {
		return "", err
	}
	body, err := env.evalTerm(sf.Body)
	if err != nil {
		return "", fmt.Errorf("spec %s: %v", sf.Name, err)
	}
	kw := "define-fun"
	if sf.Recursive {
		kw = "define-fun-rec"
	}
	fx.ctx.Raw(fmt.Sprintf("(%s %s (%s) %s %s)", kw, id, strings.Join(ps, " "), rs, body.S))
	return id, nil
}

func specGoType(ty string) types.Type {
	switch ty {
	case "int", "byte", "int64", "int32":
		return types.Typ[types.Int]
	case "bool":
		return types.Typ[types.Bool]
	case "string":
		return types.Typ[types.String]
	}
	return nil
}

func (e *specEnv) call(n *ast.CallExpr) (SVal, error) {
	fx := e.fx
	boolT := types.Typ[types.Bool]
	intT := types.Typ[types.Int]
	name := ""
	if id, ok := n.Fun.(*ast.Ident); ok {
		name = id.Name
	}
	argT := func(i int) (Term, error) { return e.evalTerm(n.Args[i]) }
	need := func(k int) error {
		if len(n.Args) != k {
			return fmt.Errorf("%s expects %d arguments", name, k)
		}
		return nil
	}
	switch name {
	case "old":
		if err := need(1); err != nil {
			return SVal{}, err
		}
		// old(p) for a parameter p is the argument the function was called with, also when the body re-assigns p
		if id, ok := n.Args[0].(*ast.Ident); ok && e.fr != nil {
			if _, shadow := e.vars[id.Name]; !shadow {
				for _, p := range e.fr.fn.Params {
					if p.Name() == id.Name {
						return SVal{V: e.fr.val(p), Ty: p.Type()}, nil
					}
				}
			}
		}
		oe := e.child()
		oe.st = e.old
		if e.oldEnv != nil {
			oe = e.oldEnv.child()
			oe.hints = e.hints
			if oe.at == nil {
				oe.at = e.at // body locals are SSA values: visible under old() as at the point of evaluation
			}
			if oe.witFr == nil {
				oe.witFr = e.witFr
				if oe.witFr == nil {
					oe.witFr = e.fr
				}
			}
			for k, v := range e.vars {
				if _, ok := oe.vars[k]; !ok {
					oe.vars[k] = v
				}
			}
		}
		return oe.eval(n.Args[0])
	case "at":
		lit, ok := n.Args[0].(*ast.BasicLit)
		if !ok || len(n.Args) != 2 {
			return SVal{}, fmt.Errorf("at(\"label\", expr)")
		}
		label, _ := strconv.Unquote(lit.Value)
		ms, ok := fx.marks[label]
		if !ok {
			return SVal{}, fmt.Errorf("mark %q was not reached (the call it is anchored to no longer exists)", label)
		}
		ae := e.child()
		ae.st = ms
		if r, ok := fx.markRes[label]; ok {
			ae.vars["callresult"] = r
		}
		return ae.eval(n.Args[1])
	case "pre":
		// pre(e): e evaluated in the heap as it was when the loop was entered (only in loop invariants)
		if e.preSt == nil {
			return SVal{}, fmt.Errorf("pre() is only available in loop invariants")
		}
		if err := need(1); err != nil {
			return SVal{}, err
		}
		pe := e.child()
		pe.st = e.preSt
		return pe.eval(n.Args[0])
	case "hdr":
		if e.hdrEnv == nil {
			return SVal{}, fmt.Errorf("hdr() is only available in loop step clauses")
		}
		he := e.hdrEnv.child()
		for k, v := range e.vars {
			if _, ok := he.vars[k]; !ok {
				he.vars[k] = v
			}
		}
		return he.eval(n.Args[0])
	case "implies", "iff":
		if err := need(2); err != nil {
			return SVal{}, err
		}
		a, err := e.evalBool(n.Args[0])
		if err != nil {
			return SVal{}, err
		}
		b, err := e.evalBool(n.Args[1])
		if err != nil {
			return SVal{}, err
		}
		if name == "iff" {
			return sv(Eq(a, b), boolT), nil
		}
		return sv(Implies(a, b), boolT), nil
	case "ite":
		if err := need(3); err != nil {
			return SVal{}, err
		}
		c, err := e.evalBool(n.Args[0])
		if err != nil {
			return SVal{}, err
		}
		a, err := e.eval(n.Args[1])
		if err != nil {
			return SVal{}, err
		}
		b, err := e.eval(n.Args[2])
		if err != nil {
			return SVal{}, err
		}
		at, bt := fx.materialize(a.V, a.Ty), fx.materialize(b.V, b.Ty)
		if at.Sort != bt.Sort {
			return SVal{}, fmt.Errorf("ite branch sorts differ: %s vs %s", at.Sort, bt.Sort)
		}
		ty := a.Ty
		if ty == nil || isNilSVal(a) {
			ty = b.Ty
		}
		return sv(Ite(c, at, bt), ty), nil
	case "forall", "exists":
		// forall(i, lo, hi, body)
		if len(n.Args) != 4 {
			return SVal{}, fmt.Errorf("%s(i, lo, hi, body)", name)
		}
		id, ok := n.Args[0].(*ast.Ident)
		if !ok {
			return SVal{}, fmt.Errorf("%s: first argument must be an identifier", name)
		}
		lo, err := argT(1)
		if err != nil {
			return SVal{}, err
		}
		hi, err := argT(2)
		if err != nil {
			return SVal{}, err
		}
		fx.ctx.nfresh++
		bv := Term{smtIdent(fmt.Sprintf("q!%s!%d", id.Name, fx.ctx.nfresh)), SInt}
		ce := e.child()
		ce.vars[id.Name] = sv(bv, intT)
		if ce.oldEnv != nil {
			oe := ce.oldEnv.child()
			oe.vars[id.Name] = sv(bv, intT)
			ce.oldEnv = oe
		}
		body, err := ce.evalQuantBody(n.Args[3])
		if err != nil {
			return SVal{}, err
		}
		rng := And(Le(lo, bv), Lt(bv, hi))
		if name == "forall" {
			// well-typedness of the heap cells read under the binder: a side condition when proving, an extra fact when assuming
			if len(ce.lastQFacts) > 0 {
				if e.hints {
					body = Implies(And(ce.lastQFacts...), body)
				} else {
					body = And(append([]Term{body}, ce.lastQFacts...)...)
				}
			}
			return sv(Term{fmt.Sprintf("(forall ((%s Int)) %s)", bv.S, Implies(rng, body).S), SBool}, boolT), nil
		}
		ex := Term{fmt.Sprintf("(exists ((%s Int)) %s)", bv.S, And(rng, body).S), SBool}
		// witness hints: instances of the body at the loop indices in scope (each implies the existential, so the
		// disjunction is equivalent to it; the instances spare the solver the search for the witness)
		var alts []Term
		for _, w := range e.witnessCandidates() {
			we := e.child()
			we.vars[id.Name] = sv(w, intT)
			if we.oldEnv != nil {
				oe := we.oldEnv.child()
				oe.vars[id.Name] = sv(w, intT)
				we.oldEnv = oe
			}
			if b, err := we.evalQuantBody(n.Args[3]); err == nil {
				alts = append(alts, And(Le(lo, w), Lt(w, hi), b))
			}
		}
		if len(alts) > 0 {
			return sv(Or(append(alts, ex)...), boolT), nil
		}
		return sv(ex, boolT), nil
	case "forallstr", "existsstr", "forallint", "existsint":
		// forallstr(k, body): unbounded quantifier over strings / ints
		if len(n.Args) != 2 {
			return SVal{}, fmt.Errorf("%s(k, body)", name)
		}
		id, ok := n.Args[0].(*ast.Ident)
		if !ok {
			return SVal{}, fmt.Errorf("%s: first argument must be an identifier", name)
		}
		srt, gty := SString, types.Type(types.Typ[types.String])
		if strings.HasSuffix(name, "int") {
			srt, gty = SInt, intT
		}
		fx.ctx.nfresh++
		bv := Term{smtIdent(fmt.Sprintf("q!%s!%d", id.Name, fx.ctx.nfresh)), srt}
		ce := e.child()
		ce.vars[id.Name] = sv(bv, gty)
		if ce.oldEnv != nil {
			oe := ce.oldEnv.child()
			oe.vars[id.Name] = sv(bv, gty)
			ce.oldEnv = oe
		}
		body, err := ce.evalQuantBody(n.Args[1])
		if err != nil {
			return SVal{}, err
		}
		q := "forall"
		if strings.HasPrefix(name, "exists") {
			q = "exists"
		}
		return sv(Term{fmt.Sprintf("(%s ((%s %s)) %s)", q, bv.S, srt, body.S), SBool}, boolT), nil
	case "len", "cap":
		if err := need(1); err != nil {
			return SVal{}, err
		}
		v, err := e.eval(n.Args[0])
		if err != nil {
			return SVal{}, err
		}
		t := fx.materialize(v.V, v.Ty)
		switch t.Sort {
		case SString:
			return sv(Term{"(str.len " + t.S + ")", SInt}, intT), nil
		case SSlice:
			if name == "cap" {
				return sv(SlCap(t), intT), nil
			}
			return sv(SlLen(t), intT), nil
		case SInt:
			if v.Ty != nil && isMap(v.Ty) {
				return sv(Ite(Eq(t, Nil), Int(0), fx.mapLen(e.st, t)), intT), nil
			}
		}
		return SVal{}, fmt.Errorf("len of unsupported value")
	case "in":
		if err := need(2); err != nil {
			return SVal{}, err
		}
		k, err := argT(0)
		if err != nil {
			return SVal{}, err
		}
		m, err := e.eval(n.Args[1])
		if err != nil {
			return SVal{}, err
		}
		mt, ok := m.Ty.Underlying().(*types.Map)
		if !ok {
			return SVal{}, fmt.Errorf("in(k, m): m is not a map")
		}
		mtm := fx.materialize(m.V, m.Ty)
		return sv(And(Not(Eq(mtm, Nil)), Select(fx.mapDom(e.st, mt, mtm), k, SBool)), boolT), nil
	case "fresh":
		if err := need(1); err != nil {
			return SVal{}, err
		}
		t, err := argT(0)
		if err != nil {
			return SVal{}, err
		}
		switch t.Sort {
		case SSlice:
			t = SlBase(t)
		case SIface:
			t = IfVal(t)
		}
		return sv(Gt(t, e.old.wm), boolT), nil
	case "own":
		// own(x): x is one of the objects this activation allocated and has not let escape (its cells survive
		// opaque calls)
		t, err := argT(0)
		if err != nil {
			return SVal{}, err
		}
		switch t.Sort {
		case SSlice:
			t = SlBase(t)
		case SIface:
			t = IfVal(t)
		}
		var alts []Term
		for _, r := range e.st.priv {
			alts = append(alts, And(Lt(r.lo, t), Le(t, r.hi)))
		}
		return sv(Or(alts...), boolT), nil
	case "allocated":
		t, err := argT(0)
		if err != nil {
			return SVal{}, err
		}
		switch t.Sort {
		case SSlice:
			t = SlBase(t)
		case SIface:
			t = IfVal(t)
		}
		return sv(And(Ge(t, Int(0)), Le(t, e.st.wm)), boolT), nil
	case "iterkey":
		// iterkey(m, n): the key handed out by the n-th step of a range over map m (an injective enumeration)
		if err := need(2); err != nil {
			return SVal{}, err
		}
		mv, err := e.eval(n.Args[0])
		if err != nil {
			return SVal{}, err
		}
		if mv.Ty == nil || !isMap(mv.Ty) {
			return SVal{}, fmt.Errorf("iterkey expects a map")
		}
		mt := mv.Ty.Underlying().(*types.Map)
		_, _, ks, _ := mapKeys(mt)
		idx, err := argT(1)
		if err != nil {
			return SVal{}, err
		}
		f := fx.ctx.DeclFun("iterkey."+string(ks), []Sort{SInt, SInt}, ks)
		inv := fx.ctx.DeclFun("iterkeyinv."+string(ks), []Sort{SInt, ks}, SInt)
		fx.ctx.RawOnce("iterkey-inj."+string(ks), fmt.Sprintf("(assert (forall ((m Int) (n Int)) (! (= (%s m (%s m n)) n) :pattern ((%s m n)))))", inv, f, f))
		m := fx.materialize(mv.V, mv.Ty)
		return sv(Term{"(" + f + " " + m.S + " " + idx.S + ")", ks}, mt.Key()), nil
	case "hasPrefix", "hasSuffix", "contains":
		if err := need(2); err != nil {
			return SVal{}, err
		}
		a, err := argT(0)
		if err != nil {
			return SVal{}, err
		}
		b, err := argT(1)
		if err != nil {
			return SVal{}, err
		}
		switch name {
		case "hasPrefix":
			return sv(Term{"(str.prefixof " + b.S + " " + a.S + ")", SBool}, boolT), nil
		case "hasSuffix":
			return sv(Term{"(str.suffixof " + b.S + " " + a.S + ")", SBool}, boolT), nil
		}
		return sv(Term{"(str.contains " + a.S + " " + b.S + ")", SBool}, boolT), nil
	case "indexOf":
		a, err := argT(0)
		if err != nil {
			return SVal{}, err
		}
		b, err := argT(1)
		if err != nil {
			return SVal{}, err
		}
		return sv(Term{"(str.indexof " + a.S + " " + b.S + " 0)", SInt}, intT), nil
	case "substr":
		if err := need(3); err != nil {
			return SVal{}, err
		}
		a, _ := argT(0)
		b, err := argT(1)
		if err != nil {
			return SVal{}, err
		}
		c, err := argT(2)
		if err != nil {
			return SVal{}, err
		}
		return sv(Term{"(str.substr " + a.S + " " + b.S + " " + c.S + ")", SString}, types.Typ[types.String]), nil
	case "stringof":
		// stringof(b): string(b) for a byte slice — the same uninterpreted function of the slice's contents, offset and
		// length that the conversion instruction denotes
		a, err := argT(0)
		if err != nil {
			return SVal{}, err
		}
		if a.Sort != SSlice {
			return SVal{}, fmt.Errorf("stringof needs a slice")
		}
		f := fx.ctx.DeclFun("stringOf", []Sort{ArraySort(SInt, SInt), SInt, SInt}, SString)
		arr := fx.heapGet(e.st, elemKey(SInt), ArraySort(SInt, ArraySort(SInt, SInt)))
		return sv(App(SString, f, Select(arr, SlBase(a), ArraySort(SInt, SInt)), SlOff(a), SlLen(a)), types.Typ[types.String]), nil
	case "nth":
		// nth(tuple, i): the i-th component of a tuple-valued spec expression (a call of a multi-result function)
		tv0, err := e.eval(n.Args[0])
		if err != nil {
			return SVal{}, err
		}
		lit, ok := n.Args[1].(*ast.BasicLit)
		if !ok {
			return SVal{}, fmt.Errorf("nth needs a literal index")
		}
		idx, _ := strconv.Atoi(lit.Value)
		tup, ok := tv0.Ty.(*types.Tuple)
		if !ok || idx < 0 || idx >= len(tv0.V.Tuple) {
			return SVal{}, fmt.Errorf("nth: not a tuple / index out of range")
		}
		return SVal{V: tv0.V.Tuple[idx], Ty: tup.At(idx).Type()}, nil
	case "replaceFirst":
		// first occurrence only (strings.Replace(s, old, new, 1)); SMT-LIB str.replace has exactly this meaning
		a, err := argT(0)
		if err != nil {
			return SVal{}, err
		}
		b, _ := argT(1)
		c, _ := argT(2)
		return sv(Term{"(str.replace " + a.S + " " + b.S + " " + c.S + ")", SString}, types.Typ[types.String]), nil
	case "replaceAll":
		a, err := argT(0)
		if err != nil {
			return SVal{}, err
		}
		b, _ := argT(1)
		c, _ := argT(2)
		return sv(Term{"(str.replace_all " + a.S + " " + b.S + " " + c.S + ")", SString}, types.Typ[types.String]), nil
	case "wrap64":
		a, err := argT(0)
		if err != nil {
			return SVal{}, err
		}
		return sv(Term{"(wrap64 " + a.S + ")", SInt}, intT), nil
	case "int", "int64", "int32", "byte", "uint32":
		return e.eval(n.Args[0])
	case "tagof":
		a, err := argT(0)
		if err != nil {
			return SVal{}, err
		}
		if a.Sort != SIface {
			return SVal{}, fmt.Errorf("tagof needs an interface value")
		}
		return sv(IfTag(a), intT), nil
	case "valof":
		a, err := argT(0)
		if err != nil {
			return SVal{}, err
		}
		return sv(IfVal(a), intT), nil
	case "typeid":
		// typeid("T") or typeid("*pkg.T") resolved in the package scope
		lit, ok := n.Args[0].(*ast.BasicLit)
		if !ok {
			return SVal{}, fmt.Errorf("typeid needs a string literal")
		}
		s, _ := strconv.Unquote(lit.Value)
		ty, err := e.resolveType(s)
		if err != nil {
			return SVal{}, err
		}
		return sv(Int(int64(fx.eng.typeID(ty))), intT), nil
	case "as":
		// as("*T", x): view an interface payload / ref as pointer to T
		lit, ok := n.Args[0].(*ast.BasicLit)
		if !ok {
			return SVal{}, fmt.Errorf("as needs a type string literal")
		}
		s, _ := strconv.Unquote(lit.Value)
		ty, err := e.resolveType(s)
		if err != nil {
			return SVal{}, err
		}
		a, err := argT(1)
		if err != nil {
			return SVal{}, err
		}
		if a.Sort == SIface {
			a = IfVal(a)
		}
		return sv(a, ty), nil
	case "asiface":
		// asiface("pkg.Iface", x): x converted to the named interface type (as the compiler's MakeInterface does)
		lit, ok := n.Args[0].(*ast.BasicLit)
		if !ok || len(n.Args) != 2 {
			return SVal{}, fmt.Errorf("asiface(\"pkg.Iface\", x)")
		}
		tn, _ := strconv.Unquote(lit.Value)
		ity, err := e.resolveType(tn)
		if err != nil {
			return SVal{}, err
		}
		x, err := e.eval(n.Args[1])
		if err != nil {
			return SVal{}, err
		}
		if x.Ty == nil {
			return SVal{}, fmt.Errorf("asiface: untyped value")
		}
		xt := fx.materialize(x.V, x.Ty)
		if xt.Sort == SIface {
			return SVal{V: tv(xt), Ty: ity}, nil
		}
		return sv(MkIface(Int(int64(fx.eng.typeID(x.Ty))), xt), ity), nil
	case "base":
		a, err := argT(0)
		if err != nil {
			return SVal{}, err
		}
		return sv(SlBase(a), intT), nil
	case "off":
		a, err := argT(0)
		if err != nil {
			return SVal{}, err
		}
		return sv(SlOff(a), intT), nil
	case "unboxs":
		a, err := argT(0)
		if err != nil {
			return SVal{}, err
		}
		if a.Sort != SIface {
			return SVal{}, fmt.Errorf("unboxs needs an interface value")
		}
		lv := &LV{Key: "Box.String", Ref: IfVal(a), Sort: SString}
		return sv(fx.readLV(e.st, lv), types.Typ[types.String]), nil
	case "ghost":
		lit, ok := n.Args[0].(*ast.BasicLit)
		if !ok {
			return SVal{}, fmt.Errorf("ghost needs a string literal")
		}
		s, _ := strconv.Unquote(lit.Value)
		if g, ok := e.st.ghost[s]; ok {
			return sv(g, boolT), nil
		}
		return sv(False, boolT), nil
	}
	if uf, ok := fx.eng.contracts.UFuns[name]; ok && name != "" {
		if len(n.Args) != len(uf.Params) {
			return SVal{}, fmt.Errorf("ufun %s expects %d arguments", name, len(uf.Params))
		}
		var ss []Sort
		var ts []Term
		for i, p := range uf.Params {
			s, err := specSort(p.Type)
			if err != nil {
				return SVal{}, err
			}
			a, err := argT(i)
			if err != nil {
				return SVal{}, err
			}
			if a.Sort != s {
				return SVal{}, fmt.Errorf("ufun %s: argument %d has sort %s, want %s", name, i, a.Sort, s)
			}
			ss = append(ss, s)
			ts = append(ts, a)
		}
		rs, err := specSort(uf.Result)
		if err != nil {
			return SVal{}, err
		}
		f := fx.ctx.DeclFun("ufun!"+name, ss, rs)
		return sv(App(rs, f, ts...), specGoType(uf.Result)), nil
	}
	// user-defined spec function
	if sf, ok := fx.eng.contracts.Specs[name]; ok && name != "" {
		if len(n.Args) != len(sf.Params) {
			return SVal{}, fmt.Errorf("spec %s expects %d arguments", name, len(sf.Params))
		}
		if sf.Recursive {
			id, err := e.declareSpecFunc(sf)
			if err != nil {
				return SVal{}, err
			}
			var args []Term
			for i := range n.Args {
				a, err := argT(i)
				if err != nil {
					return SVal{}, err
				}
				args = append(args, a)
			}
			rs, _ := specSort(sf.Result)
			return sv(App(rs, id, args...), specGoType(sf.Result)), nil
		}
		// macro expansion in the current state
		if e.depth > 12 {
			return SVal{}, fmt.Errorf("spec macro expansion too deep")
		}
		ce := e.child()
		ce.depth = e.depth + 1
		bind := map[string]SVal{}
		for i, p := range sf.Params {
			a, err := e.eval(n.Args[i])
			if err != nil {
				return SVal{}, err
			}
			bind[p.Name] = a
		}
		ce.vars = bind
		if e.fr != nil {
			ce.witFr = e.fr
		}
		ce.fr = nil
		ce.at = nil
		if e.oldEnv != nil {
			oe := e.oldEnv.child()
			oe.vars = bind
			oe.fr, oe.at = nil, nil
			ce.oldEnv = oe
		}
		return ce.eval(sf.Body)
	}
	// Go function / method call evaluated purely
	return e.goCall(n)
}

func (e *specEnv) resolveType(s string) (types.Type, error) {
	if e.pkg == nil {
		return nil, fmt.Errorf("no package scope for type %q", s)
	}
	ptr := 0
	for strings.HasPrefix(s, "*") {
		ptr++
		s = s[1:]
	}
	var ty types.Type
	if i := strings.LastIndex(s, "."); i >= 0 {
		pkgName, tn := s[:i], s[i+1:]
		for _, imp := range e.pkg.Imports() {
			if imp.Name() == pkgName || imp.Path() == pkgName {
				if obj := imp.Scope().Lookup(tn); obj != nil {
					ty = obj.Type()
				}
			}
		}
		if ty == nil {
			// search whole program
			for _, p := range e.fx.eng.prog.AllPackages() {
				if p.Pkg.Name() == pkgName || p.Pkg.Path() == pkgName {
					if obj := p.Pkg.Scope().Lookup(tn); obj != nil {
						ty = obj.Type()
					}
				}
			}
		}
	} else if obj := e.pkg.Scope().Lookup(s); obj != nil {
		ty = obj.Type()
	} else if obj := types.Universe.Lookup(s); obj != nil {
		ty = obj.Type()
	}
	if ty == nil {
		return nil, fmt.Errorf("cannot resolve type %q", s)
	}
	for ; ptr > 0; ptr-- {
		ty = types.NewPointer(ty)
	}
	return ty, nil
}

// goCall evaluates a call to a real Go function or method inside a specification by inlining it
// on a scratch copy of the state (obligations are discarded; only loop-free functions).
func (e *specEnv) goCall(n *ast.CallExpr) (SVal, error) {
	fx := e.fx
	var fn *ssa.Function
	var args []Val
	switch f := n.Fun.(type) {
	case *ast.SelectorExpr:
		// package-qualified function pkg.F(...)
		if id, ok := f.X.(*ast.Ident); ok && e.pkg != nil {
			if _, bound := e.vars[id.Name]; !bound {
				if _, isLocal := e.tryLocal(id.Name); !isLocal {
					for _, imp := range e.pkg.Imports() {
						if imp.Name() == id.Name {
							if obj, ok := imp.Scope().Lookup(f.Sel.Name).(*types.Func); ok {
								fn = fx.eng.prog.FuncValue(obj)
							}
						}
					}
				}
			}
		}
		if fn != nil {
			break
		}
		// method call x.M(...)
		recv, err := e.eval(f.X)
		if err != nil {
			return SVal{}, err
		}
		if recv.Ty == nil {
			return SVal{}, fmt.Errorf("method call on untyped value")
		}
		ms := fx.eng.prog.MethodSets.MethodSet(recv.Ty)
		sel := ms.Lookup(e.pkgOf(recv.Ty), f.Sel.Name)
		if sel == nil {
			// try pointer receiver
			ms = fx.eng.prog.MethodSets.MethodSet(types.NewPointer(recv.Ty))
			sel = ms.Lookup(e.pkgOf(recv.Ty), f.Sel.Name)
		}
		if sel == nil {
			return SVal{}, fmt.Errorf("no method %s on %v", f.Sel.Name, recv.Ty)
		}
		if isInterface(recv.Ty) {
			// interface method: an uninterpreted function of the receiver — the same one the call sites use when
			// the method has a `deterministic` contract
			rt := sel.Type().(*types.Signature).Results().At(0).Type()
			m, _ := sel.Obj().(*types.Func)
			name := "iface:" + typeKey(recv.Ty) + "." + f.Sel.Name
			if m != nil {
				name = "iface:" + ifaceMethodName(recv.Ty, m)
			}
			if len(n.Args) != 0 {
				return SVal{}, fmt.Errorf("interface method calls with arguments are not supported in specs")
			}
			return sv(fx.pureUF(name, []Val{recv.V}, []types.Type{recv.Ty}, rt), rt), nil
		}
		fn = fx.eng.prog.MethodValue(sel)
		args = append(args, recv.V)
	case *ast.Ident:
		if e.pkg != nil {
			if obj, ok := e.pkg.Scope().Lookup(f.Name).(*types.Func); ok {
				fn = fx.eng.prog.FuncValue(obj)
			}
		}
	}
	if fn == nil || len(fn.Blocks) == 0 {
		return SVal{}, fmt.Errorf("cannot resolve spec call %s", exprString(n.Fun))
	}
	for _, a := range n.Args {
		v, err := e.eval(a)
		if err != nil {
			return SVal{}, err
		}
		args = append(args, v.V)
	}
	if ct := fx.eng.contractFor(fn); ct != nil && ct.Flags["deterministic"] && fn.Signature.Results().Len() > 1 {
		// f(args) of a deterministic function with several results: the tuple of its per-result uninterpreted functions
		// (select one with nth(f(args), i))
		var tys []types.Type
		for _, p := range fn.Params {
			tys = append(tys, p.Type())
		}
		var rs []Val
		for i := 0; i < fn.Signature.Results().Len(); i++ {
			rt := fn.Signature.Results().At(i).Type()
			rs = append(rs, tv(fx.pureUF(fmt.Sprintf("%s#%d", fx.eng.shortName(fn), i), args, tys, rt)))
		}
		return SVal{V: Val{Tuple: rs, Known: true}, Ty: fn.Signature.Results()}, nil
	}
	if ct := fx.eng.contractFor(fn); ct != nil && ct.Flags["deterministic"] && fn.Signature.Results().Len() == 1 {
		rt := fn.Signature.Results().At(0).Type()
		var tys []types.Type
		for _, p := range fn.Params {
			tys = append(tys, p.Type())
		}
		return sv(fx.pureUF(fx.eng.shortName(fn), args, tys, rt), rt), nil
	}
	if len(args) != len(fn.Params) {
		return SVal{}, fmt.Errorf("argument count mismatch calling %s", fn.Name())
	}
	if fx.eng.loopsOf(fn).headers != nil && len(fx.eng.loopsOf(fn).headers) > 0 {
		return SVal{}, fmt.Errorf("spec call to %s: function has loops", fn.Name())
	}
	res, ok := fx.pureCall(fn, args, e.st)
	if !ok {
		return SVal{}, fmt.Errorf("spec call to %s could not be inlined", fn.Name())
	}
	rt := fn.Signature.Results()
	if rt.Len() == 1 {
		return SVal{V: res[0], Ty: rt.At(0).Type()}, nil
	}
	return SVal{V: Val{Tuple: res, Known: true}, Ty: rt}, nil
}

func (e *specEnv) pkgOf(t types.Type) *types.Package {
	if pt, ok := t.(*types.Pointer); ok {
		t = pt.Elem()
	}
	if nt, ok := t.(*types.Named); ok && nt.Obj() != nil {
		return nt.Obj().Pkg()
	}
	return e.pkg
}

func exprString(x ast.Expr) string {
	switch n := x.(type) {
	case *ast.Ident:
		return n.Name
	case *ast.SelectorExpr:
		return exprString(n.X) + "." + n.Sel.Name
	}
	return fmt.Sprintf("%T", x)
}


// evalQuantBody evaluates a quantifier body: nothing mentioning the bound variable may leak into the context.
func (e *specEnv) evalQuantBody(x ast.Expr) (t Term, err error) {
	c := e.fx.ctx
	c.quant++
	c.qfacts = append(c.qfacts, nil)
	defer func() {
		c.quant--
		facts := c.qfacts[len(c.qfacts)-1]
		c.qfacts = c.qfacts[:len(c.qfacts)-1]
		if r := recover(); r != nil {
			err = fmt.Errorf("quantifier body: %v", r)
			return
		}
		e.lastQFacts = nil
		seen := map[string]bool{}
		for _, f := range facts {
			if !seen[f] {
				seen[f] = true
				e.lastQFacts = append(e.lastQFacts, Term{f, SBool})
			}
		}
	}()
	return e.evalBool(x)
}


// witnessCandidates: integer loop variables of the frame (and their successors), used as existential witness hints.
func (e *specEnv) witnessCandidates() []Term {
	wf := e.fr
	if wf == nil {
		wf = e.witFr
	}
	if wf == nil || e.fx.ctx.quant > 0 || !e.hints {
		return nil
	}
	var out []Term
	for _, b := range wf.fn.Blocks {
		for _, in := range b.Instrs {
			phi, ok := in.(*ssa.Phi)
			if !ok {
				break
			}
			if sortOf(phi.Type()) != SInt || isRefLike(phi.Type()) {
				continue
			}
			if v, ok := wf.vals[phi]; ok && v.T.S != "" {
				out = append(out, v.T, Add(v.T, Int(1)))
			}
			if len(out) >= 8 {
				return out
			}
		}
	}
	return out
}


// evalGoal evaluates a clause that is about to be proved (witness hints enabled).
func (e *specEnv) evalGoal(x ast.Expr) (Term, error) {
	e.hints = true
	if e.oldEnv != nil {
		e.oldEnv.hints = true
	}
	defer func() {
		e.hints = false
		if e.oldEnv != nil {
			e.oldEnv.hints = false
		}
	}()
	t, err := e.evalBool(x)
	if err == nil {
		// instantiation points for the universally quantified facts of the path: the loop indices in scope
		e.fx.hintTerms = e.witnessCandidates()
	}
	return t, err
}
