package main

import (
	"encoding/json"
	"flag"
	"fmt"
	"os"
	"path/filepath"
	"regexp"
	"sort"
	"strings"
	"time"

	"golang.org/x/tools/go/ssa"
)

// PropConfig is /verif/props/<id>.json
type PropConfig struct {
	ID        string   `json:"id"`
	Packages  []string `json:"packages"`
	Functions []string `json:"functions"` // short names; "pkg.*" = every function of the package that has a contract
	Sweep     []string `json:"sweep"`     // short names / "pkg.*" verified for the panic class without needing a contract
	Classes   []string `json:"classes"`   // obligation classes that count for this property (empty = all)
	Exclude   []string `json:"exclude"`   // optional regexps: obligations whose name matches belong to another property's contract on a shared function
	Labels    []string `json:"labels"`    // optional regexps: only obligations whose name matches one of them count
	Det       []string `json:"det"`       // functions subject to the determinism typestate analysis
	NoPanic   []string `json:"no_panic"`  // functions that must be panic-free as a whole (recovery handlers): every panic obligation in them is a contract obligation, whatever its kind
	Unstable  []string `json:"unstable"`  // obligations whose proof takes close to the timeout: never claimed (kept undecided), so that load cannot turn them into alarms
	Undecided []string `json:"undecided"` // parts of the property not decided (free text, copied to evidence)
	Trusted   []string `json:"trusted"`
	Bounded   []string `json:"bounded"`
	Note      string   `json:"note"`
}

type BaselineEntry struct {
	Name   string `json:"name"`
	Status string `json:"status"` // proved | undecided
	Why    string `json:"why,omitempty"`
	Mode   string `json:"mode,omitempty"` // "full": discharged only with the whole context (no cone-of-influence pruning)
}

type KnownFinding struct {
	Property   string `json:"property"`
	Obligation string `json:"obligation"`
	Status     string `json:"status"` // open | fixed
	Commit     string `json:"commit,omitempty"`
	What       string `json:"what"`
	Witness    string `json:"witness,omitempty"`
	Replay     string `json:"replay,omitempty"` // replay template id
	ExcludedWhen string `json:"excluded_when,omitempty"`
}

var tildeRe = regexp.MustCompile(`~\d+$`)

func baseName(n string) string { return tildeRe.ReplaceAllString(n, "") }

type groupResult struct {
	Name    string
	Class   string
	Func    string
	Status  string // proved | failed | unknown
	Members []*Obligation
	Canary  bool
}

func worst(a, b string) string {
	rank := map[string]int{"proved": 0, "unknown": 1, "failed": 2, "": 0}
	if rank[b] > rank[a] {
		return b
	}
	return a
}

func matchFunc(patterns []string, short string) bool {
	for _, p := range patterns {
		if p == short {
			return true
		}
		if strings.HasSuffix(p, ".*") && strings.HasPrefix(short, strings.TrimSuffix(p, "*")) {
			return true
		}
		if strings.Contains(p, "%") && globMatch(p, short) {
			return true
		}
	}
	return false
}

func cmdCheck(args []string) {
	fs := flag.NewFlagSet("check", flag.ExitOnError)
	repo := fs.String("repo", "/repo", "repository root")
	verif := fs.String("verif", "/verif", "verification root")
	tier := fs.String("tier", "quick", "quick|thorough")
	writeBaseline := fs.Bool("write-baseline", false, "rewrite obligations/<id>.list from this run (developer use only)")
	replayPath := fs.String("replay", "", "re-run the obligation recorded in a replay file")
	noEvidence := fs.Bool("no-evidence", false, "do not write the evidence file")
	verbose := fs.Bool("v", false, "verbose")
	if len(args) == 0 {
		fmt.Fprintln(os.Stderr, "usage: govc check <id> [--tier quick|thorough]")
		os.Exit(2)
	}
	id := args[0]
	fs.Parse(args[1:])
	if t := os.Getenv("VERIF_TIER"); t != "" && *tier == "quick" {
		// explicit flag wins; env only used when flag left at default
		if t == "thorough" || t == "quick" {
			*tier = t
		}
	}
	seed := 0
	fmt.Sscanf(os.Getenv("VERIF_SEED"), "%d", &seed)
	t0 := time.Now()
	var cfg PropConfig
	data, err := os.ReadFile(filepath.Join(*verif, "props", id+".json"))
	if err != nil {
		fmt.Fprintln(os.Stderr, "no property config:", err)
		os.Exit(2)
	}
	if err := json.Unmarshal(data, &cfg); err != nil {
		fmt.Fprintln(os.Stderr, "bad property config:", err)
		os.Exit(2)
	}
	eng, err := LoadEngine(*repo, cfg.Packages, filepath.Join(*verif, "specs"))
	if err != nil {
		// the tree does not build / contracts do not parse: the check cannot run
		fmt.Fprintln(os.Stderr, "load:", err)
		os.Exit(2)
	}
	loadS := time.Since(t0).Seconds()
	timeout := 10
	if *tier == "thorough" {
		timeout = 60
	}
	// known findings
	var known []KnownFinding
	if kd, err := os.ReadFile(filepath.Join(*verif, "known_findings.json")); err == nil {
		_ = json.Unmarshal(kd, &known)
	}
	// baseline
	baseline := map[string]BaselineEntry{}
	var baselineOrder []string
	if bd, err := os.ReadFile(filepath.Join(*verif, "obligations", id+".list")); err == nil {
		var ents []BaselineEntry
		if err := json.Unmarshal(bd, &ents); err == nil {
			for _, e := range ents {
				baseline[e.Name] = e
				baselineOrder = append(baselineOrder, e.Name)
			}
		}
	}
	unstable := map[string]bool{}
	for _, u := range cfg.Unstable {
		unstable[u] = true
		if e, ok := baseline[u]; ok && e.Status == "proved" {
			e.Status, e.Why = "undecided", "slow proof (listed as unstable)"
			baseline[u] = e
		}
	}
	// functions
	var results []*FuncResult
	var fns []*ssa.Function
	seenFn := map[string]bool{}
	var paths []string
	for p := range eng.spkgs {
		if strings.HasPrefix(p, modulePath) {
			paths = append(paths, p)
		}
	}
	sort.Strings(paths)
	for _, p := range paths {
		for _, fn := range eng.allFunctions(p) {
			sn := eng.shortName(fn)
			ct := eng.contractFor(fn)
			if ct != nil && ct.Flags["trusted"] && !matchFunc(cfg.Sweep, sn) && len(ct.Structure) == 0 {
				continue // a trusted contract is an assumption, not a claim (the panic sweep still looks at the body)
			}
			if (matchFunc(cfg.Functions, sn) && ct != nil) || matchFunc(cfg.Sweep, sn) {
				if !seenFn[sn] {
					seenFn[sn] = true
					fns = append(fns, fn)
				}
			}
		}
	}
	dir, _ := os.MkdirTemp("", "govc-"+id)
	defer os.RemoveAll(dir)
	var all []*Obligation
	for _, fn := range fns {
		r := eng.VerifyFunction(fn)
		results = append(results, r)
		all = append(all, r.Obligations...)
	}
	for _, l := range eng.contracts.Lemmas {
		ln := pkgShort(l.PkgPath) + ".lemma." + l.Name
		if matchFunc(cfg.Functions, ln) {
			r := eng.VerifyLemma(l)
			results = append(results, r)
			all = append(all, r.Obligations...)
			seenFn[ln] = true
		}
	}
	// functions named explicitly in the config but absent from the tree
	var missingFns []string
	for _, f := range append(append([]string{}, cfg.Functions...), cfg.Sweep...) {
		if strings.HasSuffix(f, ".*") || strings.Contains(f, "%") {
			continue
		}
		if !seenFn[f] {
			missingFns = append(missingFns, f)
		}
	}
	genS := time.Since(t0).Seconds() - loadS
	// class / label filter
	classOK := func(o *Obligation) bool {
		// functions that are only swept (no contract of this property) count for the panic class alone
		if o.Class != "panic" && o.Class != "cover" && o.Func != "" && !matchFunc(cfg.Functions, o.Func) && matchFunc(cfg.Sweep, o.Func) {
			return false
		}
		for _, l := range cfg.Exclude {
			if m, _ := regexp.MatchString(l, o.Name); m {
				return false
			}
		}
		if len(cfg.Classes) > 0 {
			ok := false
			for _, c := range cfg.Classes {
				if c == o.Class {
					ok = true
				}
			}
			if !ok && o.Class != "cover" {
				return false
			}
		}
		if len(cfg.Labels) > 0 {
			for _, l := range cfg.Labels {
				if m, _ := regexp.MatchString(l, o.Name); m {
					return true
				}
			}
			return o.Class == "cover"
		}
		return true
	}
	var counted []*Obligation
	for _, o := range all {
		if classOK(o) {
			counted = append(counted, o)
		}
	}
	// quick tier: panic-sweep obligations that the committed baseline lists as undecided are neither claimed nor
	// reported, so they are not re-run (they are in the thorough tier); known findings are always re-run
	if *tier == "quick" && !*writeBaseline {
		kf := map[string]bool{}
		for _, k := range known {
			kf[k.Obligation] = true
		}
		for _, o := range counted {
			bn := baseName(o.Name)
			if be, ok := baseline[bn]; ok && be.Status == "undecided" && !kf[bn] && o.Status == "" {
				o.Status = "unknown"
				o.Detail = "not re-run in the quick tier (undecided in the committed baseline)"
			}
		}
	}
	for _, o := range counted {
		if be, ok := baseline[baseName(o.Name)]; ok && be.Mode == "full" && !*writeBaseline {
			o.NoPrune = true
		}
	}
	if *tier == "thorough" {
		// the zero-annotation sweep has hundreds of sites that no solver decides: they get a third of the thorough limit
		// (each still runs on every back end), the contract obligations the full limit
		var sweep, rest []*Obligation
		for _, o := range counted {
			if o.Class == "panic" {
				sweep = append(sweep, o)
			} else {
				rest = append(rest, o)
			}
		}
		DischargeAll(rest, dir, timeout, 6)
		DischargeAll(sweep, dir, timeout/3, 8)
	} else {
		DischargeAll(counted, dir, timeout, 6)
	}
	// an obligation the committed baseline lists as proved that only timed out (machine under load) is retried on
	// its own with a longer limit before anything is concluded from it
	{
		// second attempt, with the whole context (the cone-of-influence pruning can drop a fact that was needed) and a
		// longer limit: for baseline-proved obligations that came back undecided, and for every undecided contract
		// obligation while a baseline is being written
		var retry []*Obligation
		for _, o := range counted {
			if o.Expect == "canary" || o.ctx == nil || (o.Status != "unknown" && o.Status != "failed") {
				continue // structural / typestate obligations have no SMT context: nothing to retry
			}
			be, ok := baseline[baseName(o.Name)]
			if (!*writeBaseline && ok && be.Status == "proved") || (*writeBaseline && o.Class != "panic") {
				o.Status, o.Detail = "", ""
				o.NoPrune = true
				retry = append(retry, o)
			}
		}
		if len(retry) > 0 && len(retry) <= 40 {
			DischargeAll(retry, dir, timeout*6, 4)
		} else {
			for _, o := range retry {
				o.Status = "unknown"
			}
		}
	}
	solveS := time.Since(t0).Seconds() - loadS - genS
	// determinism typestate
	detObls := eng.detAnalysis(cfg.Det)
	// group
	groups := map[string]*groupResult{}
	var order []string
	addG := func(o *Obligation) {
		bn := baseName(o.Name)
		g := groups[bn]
		if g == nil {
			g = &groupResult{Name: bn, Class: o.Class, Func: o.Func, Status: "proved", Canary: o.Expect == "canary"}
			groups[bn] = g
			order = append(order, bn)
		}
		g.Members = append(g.Members, o)
		g.Status = worst(g.Status, o.Status)
	}
	for _, o := range counted {
		addG(o)
	}
	for _, o := range detObls {
		addG(o)
	}
	if *writeBaseline {
		var ents []BaselineEntry
		for _, n := range order {
			g := groups[n]
			if g.Canary {
				if g.Status == "proved" {
					// a path the encoding finds unreachable on the unchanged tree (dead code): recorded, so that only a
					// change of this fact is reported
					ents = append(ents, BaselineEntry{Name: n, Status: "dead-path", Why: "return / loop not reachable under the contract on the unchanged tree"})
				}
				continue
			}
			e := BaselineEntry{Name: n, Status: "proved"}
			for _, m := range g.Members {
				if m.NoPrune && m.Status == "proved" {
					e.Mode = "full"
				}
			}
			if unstable[n] {
				e.Status, e.Why = "undecided", "slow proof (listed as unstable)"
			} else if g.Status != "proved" {
				e.Status = "undecided"
				e.Why = g.Status
				if old, ok := baseline[n]; ok && old.Why != "" && old.Status == "undecided" {
					e.Why = old.Why
				}
			}
			ents = append(ents, e)
		}
		out, _ := json.MarshalIndent(ents, "", " ")
		os.MkdirAll(filepath.Join(*verif, "obligations"), 0o755)
		os.WriteFile(filepath.Join(*verif, "obligations", id+".list"), append(out, '\n'), 0o644)
		fmt.Fprintf(os.Stderr, "baseline written: %d entries\n", len(ents))
	}
	// verdict
	violations := 0
	var lines []string
	replayDir := filepath.Join(*verif, "replays")
	os.MkdirAll(replayDir, 0o755)
	report := func(g *groupResult, reason string) {
		violations++
		path := filepath.Join(replayDir, id+"-"+sanitize(g.Name)+".txt")
		confirmed := writeReplay(eng, path, id, g, reason, *verif)
		suffix := " no-failing-input-found"
		if confirmed {
			suffix = ""
		}
		lines = append(lines, fmt.Sprintf("VIOLATION property=%s replay=%s%s", id, path, suffix))
		fmt.Fprintf(os.Stderr, "  violated obligation: %s (%s) %s\n", g.Name, g.Status, reason)
	}
	knownFor := func(name string) *KnownFinding {
		for i := range known {
			if known[i].Property == id && known[i].Obligation == name {
				return &known[i]
			}
		}
		return nil
	}
	nProved, nClaimed, nUndecided, nKnown := 0, 0, 0, 0
	var undecidedNames []string
	for _, n := range order {
		g := groups[n]
		if g.Canary {
			if g.Status == "proved" {
				if be, ok := baseline[n]; ok && be.Status == "dead-path" {
					continue
				}
				report(g, "vacuity: the contract's precondition is unsatisfiable or a return / loop became unreachable, so obligations hold vacuously")
			}
			continue
		}
		be, inBase := baseline[n]
		kf := knownFor(n)
		switch {
		case kf != nil && kf.Status != "fixed":
			if g.Status == "proved" {
				fmt.Fprintf(os.Stderr, "stale known finding (now proved): %s\n", n)
				nProved++
				nClaimed++
			} else {
				nKnown++
				lines = append(lines, fmt.Sprintf("KNOWN-FINDING: property=%s %s", id, kf.What))
			}
		case inBase && be.Status == "proved":
			nClaimed++
			if g.Status == "proved" {
				nProved++
			} else {
				report(g, "obligation was discharged on the unchanged tree and is not discharged now")
			}
		case inBase:
			nUndecided++
			undecidedNames = append(undecidedNames, n)
		default:
			// new obligation (code changed): counts when proved; a failing one is a violation only for contract-carrying classes
			if g.Status == "proved" {
				nClaimed++
				nProved++
			} else if g.Class != "panic" && len(baseline) > 0 {
				nClaimed++
				report(g, "new contract obligation not discharged")
			} else if len(baseline) > 0 && inStrings(cfg.NoPanic, g.Func) {
				// a function the property needs to be panic-free (e.g. the deferred handler that turns panics into errors)
				nClaimed++
				report(g, "the function must not panic (it was proved panic-free on the unchanged tree); a new panic site is not discharged")
			} else if k := panicKind(n); len(baseline) > 0 && freeOfKind(baseline, g.Func, k) {
				// the function was free of this kind of panic on the unchanged tree (every index / slice / division /
				// map-store / explicit-panic site it had was discharged, or it had none): the group "<function>: no <kind>
				// panic" passed before and does not pass now
				nClaimed++
				report(g, "the function was proved free of "+k+" panics on the unchanged tree; a new site of that kind is not discharged")
			} else {
				nUndecided++
				undecidedNames = append(undecidedNames, n)
			}
		}
	}
	// baseline obligations that vanished
	for _, n := range baselineOrder {
		if _, ok := groups[n]; ok {
			continue
		}
		be := baseline[n]
		if be.Status != "proved" {
			continue
		}
		cls := ""
		if i := strings.Index(n, "#"); i >= 0 {
			if j := strings.Index(n[i:], ":"); j >= 0 {
				cls = n[i+1 : i+j]
			}
		}
		fnName := n
		if i := strings.Index(n, "#"); i >= 0 {
			fnName = n[:i]
		}
		if cls == "det" {
			continue // a map-range loop that no longer exists needs no determinism argument
		}
		if !seenFn[fnName] {
			g := &groupResult{Name: n, Class: cls, Func: fnName, Status: "unknown"}
			report(g, "the function under contract no longer exists (renamed or removed); its obligations cannot be discharged")
			continue
		}
		// obligations keyed to a contract clause must not vanish; obligations keyed to a piece of code (a possible
		// panic site, a call's precondition, one write under a frame) vanish together with that code, which is no violation
		if cls != "panic" && cls != "pre" && cls != "det" && cls != "frame" && cls != "errprop" {
			g := &groupResult{Name: n, Class: cls, Func: fnName, Status: "unknown"}
			report(g, "a contract obligation present on the unchanged tree is no longer generated (loop / return / anchor it is keyed to has gone)")
		}
	}
	for _, u := range missingFns {
		fmt.Fprintf(os.Stderr, "configured function not found: %s\n", u)
	}
	// evidence
	wall := time.Since(t0).Seconds()
	if !*noEvidence && !*writeBaseline {
		// a baseline-writing run is judged against the baseline it replaces: its counts are not a record of the tree
		writeEvidence(eng, *verif, id, *tier, seed, &cfg, results, groups, order, baseline, known, nClaimed, nProved, nUndecided, nKnown, undecidedNames, violations, wall, loadS, genS, solveS)
	}
	if *verbose {
		for _, n := range order {
			g := groups[n]
			if g.Status != "proved" && !g.Canary {
				fmt.Fprintf(os.Stderr, "  %-8s %s\n", g.Status, n)
			}
		}
	}
	for _, l := range lines {
		fmt.Println(l)
	}
	fmt.Fprintf(os.Stderr, "%s %s: %d functions, %d obligation groups claimed, %d discharged, %d undecided (unclaimed), %d known findings, %d violations, %.1fs (load %.1f gen %.1f solve %.1f)\n",
		id, *tier, len(fns), nClaimed, nProved, nUndecided, nKnown, violations, wall, loadS, genS, solveS)
	_ = replayPath
	if violations > 0 {
		os.Exit(1)
	}
}

func sanitize(s string) string {
	r := strings.NewReplacer("/", "_", " ", "_", "*", "", "(", "", ")", "", "#", "-", ":", "-", "[", "", "]", "", "$", "S", ">", "_", "@", "_", "\"", "", "'", "", "…", "")
	out := r.Replace(s)
	if len(out) > 150 {
		out = out[:150]
	}
	return out
}

// writeReplay writes the replay file for a violated obligation; returns true if a concrete failing input was confirmed on the real code.
func writeReplay(eng *Engine, path, id string, g *groupResult, reason, verif string) bool {
	var b strings.Builder
	fmt.Fprintf(&b, "property: %s\nobligation: %s\nclass: %s\nfunction: %s\nverdict: %s\nreason: %s\n", id, g.Name, g.Class, g.Func, g.Status, reason)
	confirmed := false
	for _, o := range g.Members {
		if o.Status == "proved" {
			continue
		}
		fmt.Fprintf(&b, "\n--- member %s at %s\nstatus: %s solver: %s time: %dms\n%s\n", o.Name, o.Pos, o.Status, o.Solver, o.TimeMS, o.Detail)
		if o.Model != "" {
			m := o.Model
			if len(m) > 6000 {
				m = m[:6000] + "\n...(truncated)"
			}
			fmt.Fprintf(&b, "solver output (counterexample model):\n%s\n", m)
			if ok, log := tryReplay(eng, o, verif); log != "" {
				fmt.Fprintf(&b, "\nreplay on the real code:\n%s\n", log)
				if ok {
					confirmed = true
				}
			}
		}
	}
	os.WriteFile(path, []byte(b.String()), 0o644)
	return confirmed
}

type evObl struct {
	Name    string `json:"name"`
	Class   string `json:"class"`
	Status  string `json:"status"`
	Solver  string `json:"solver,omitempty"`
	TimeMS  int64  `json:"time_ms"`
	Claimed bool   `json:"claimed"`
}

func writeEvidence(eng *Engine, verif, id, tier string, seed int, cfg *PropConfig, results []*FuncResult, groups map[string]*groupResult, order []string,
	baseline map[string]BaselineEntry, known []KnownFinding, nClaimed, nProved, nUndecided, nKnown int, undecided []string, violations int, wall, loadS, genS, solveS float64) {
	type fnInfo struct {
		Func        string   `json:"func"`
		Instrs      int      `json:"ssa_instrs"`
		Obligations int      `json:"obligations"`
		Contract    bool     `json:"has_contract"`
		Unsupported []string `json:"engine_limitations,omitempty"`
	}
	var fnsI []fnInfo
	notes := map[string]bool{}
	for _, r := range results {
		fnsI = append(fnsI, fnInfo{r.Func, r.Instrs, len(r.Obligations), r.HasContract, r.Unsupported})
		for _, n := range r.Notes {
			notes[n] = true
		}
	}
	var obls []evObl
	perClass := map[string]int{}
	perSolver := map[string]int{}
	var solverMS int64
	var samples []map[string]string
	for _, n := range order {
		g := groups[n]
		if g.Canary {
			continue
		}
		be, inBase := baseline[n]
		claimed := (inBase && be.Status == "proved") || (!inBase && g.Status == "proved")
		var ms int64
		solver := ""
		for _, m := range g.Members {
			ms += m.TimeMS
			if m.Solver != "" {
				solver = m.Solver
			}
		}
		solverMS += ms
		obls = append(obls, evObl{n, g.Class, g.Status, solver, ms, claimed})
		if claimed {
			perClass[g.Class]++
			perSolver[solver]++
		}
		if len(samples) < 3 && claimed && g.Class != "panic" && len(g.Members) > 0 && g.Members[0].ctx != nil {
			smt := g.Members[0].SMT()
			if len(smt) > 3000 {
				smt = smt[:1500] + "\n...\n" + smt[len(smt)-1400:]
			}
			samples = append(samples, map[string]string{"obligation": n, "smtlib": smt})
		}
	}
	if len(samples) == 0 {
		for _, n := range order {
			g := groups[n]
			if !g.Canary && len(g.Members) > 0 && g.Members[0].ctx != nil {
				smt := g.Members[0].SMT()
				if len(smt) > 3000 {
					smt = smt[:1500] + "\n...\n" + smt[len(smt)-1400:]
				}
				samples = append(samples, map[string]string{"obligation": n, "smtlib": smt})
				break
			}
			if !g.Canary && len(g.Members) > 0 {
				samples = append(samples, map[string]string{"obligation": n, "detail": g.Members[0].Detail})
				break
			}
		}
	}
	canaries := 0
	canaryOK := 0
	for _, n := range order {
		if groups[n].Canary {
			canaries++
			if groups[n].Status != "proved" {
				canaryOK++
			}
		}
	}
	var trusted []string
	trusted = append(trusted, "go/packages + go/ssa build the SSA of /repo's working tree faithfully; govc's SMT encoding (DESIGN.md 2.4) is correct",
		"SMT solvers z3 4.8.12, z3-new 5.1.0, cvc5 1.0 are sound (first definite answer of the race is taken)",
		"machine integers are treated as mathematical integers (except functions marked 'arith wrap64')",
		"strings are SMT strings: byte vs code point distinctions are not modelled",
		"external (out-of-module) calls without a spec write only memory type-reachable from their arguments through exported fields")
	for n := range notes {
		if strings.HasPrefix(n, "trusted contract") {
			trusted = append(trusted, n)
		}
	}
	trusted = append(trusted, cfg.Trusted...)
	sort.Strings(trusted[5:])
	var assumptions []string
	for n := range notes {
		if !strings.HasPrefix(n, "trusted contract") && !strings.HasPrefix(n, "callee contract used") {
			assumptions = append(assumptions, n)
		}
	}
	sort.Strings(assumptions)
	for _, u := range cfg.Undecided {
		assumptions = append(assumptions, "NOT DECIDED: "+u)
	}
	var kf []string
	for _, k := range known {
		if k.Property == id {
			kf = append(kf, k.Status+": "+k.Obligation+" — "+k.What)
		}
	}
	ev := map[string]interface{}{
		"property_id": id,
		"tier":        tier,
		"seed":        seed,
		"level":       "proof",
		"wall_s":      wall,
		"violations":  violations,
		"assumptions": assumptions,
		"coverage": map[string]interface{}{
			"obligations":  nClaimed,
			"discharged":   nProved,
			"checker_cmd":  fmt.Sprintf("/verif/bin/check %s --tier %s   (govc: go/ssa VC generator over /repo -tags verif; back ends raced per obligation: z3-new 5.1.0, z3 4.8.12, cvc5 1.0)", id, tier),
			"trusted_base": trusted,
			"samples":      samples,
			"functions_under_contract": fnsI,
			"obligations_by_class":     perClass,
			"discharged_by_backend":    perSolver,
			"solver_time_ms":           solverMS,
			"phase_seconds":            map[string]float64{"load": loadS, "vcgen": genS, "solve": solveS},
			"undecided_unclaimed":      nUndecided,
			"undecided_names":          undecided,
			"known_findings":           kf,
			"known_findings_hit":       nKnown,
			"vacuity_canaries":         map[string]int{"total": canaries, "behaved": canaryOK},
			"bounded_standins":         cfg.Bounded,
			"not_decided":              cfg.Undecided,
			"per_obligation":           obls,
			"contract_files":           eng.contracts.Files,
			"explanation":              cfg.Note,
		},
	}
	out, _ := json.MarshalIndent(ev, "", " ")
	os.MkdirAll(filepath.Join(verif, "evidence"), 0o755)
	os.WriteFile(filepath.Join(verif, "evidence", id+".json"), append(out, '\n'), 0o644)
}

// panicKind: the kind of a panic obligation ("index", "slice-bounds", "div-zero", "nil-map-store", "explicit"), or ""
// for kinds that are not tracked per function (nil dereferences, interface calls, type assertions: these depend on
// invariants of parse trees and models that the sweep does not have, and most functions carry undecided ones).
func panicKind(name string) string {
	i := strings.Index(name, "#panic:")
	if i < 0 {
		return ""
	}
	rest := name[i+len("#panic:"):]
	for _, k := range []string{"index", "slice-bounds", "div-zero", "nil-map-store", "explicit"} {
		if strings.HasPrefix(rest, k+":") || strings.HasPrefix(rest, k+"@") {
			return k
		}
	}
	return ""
}

func freeOfKind(baseline map[string]BaselineEntry, fn, kind string) bool {
	if kind == "" || fn == "" {
		return false
	}
	known := false
	for n, e := range baseline {
		if !strings.HasPrefix(n, fn+"#") {
			continue
		}
		known = true
		if panicKind(n) == kind && e.Status != "proved" {
			return false
		}
	}
	return known // the function must have been under the sweep already
}

func inStrings(xs []string, x string) bool {
	for _, y := range xs {
		if y == x {
			return true
		}
	}
	return false
}
