package main

import (
	"fmt"
	"go/ast"
	"go/types"
	"strings"

	"golang.org/x/tools/go/ssa"
)

// ---- private objects
//
// An object allocated by the function under verification (directly, or inside a callee whose contract is `pure`,
// i.e. that only allocates) stays *private* as long as no reference to it is stored into the heap, captured, or
// handed to code that could store it. Opaque calls cannot reach private objects, so a heap havoc leaves every cell of
// a private object unchanged. Privacy is decided by a conservative static escape analysis of the SSA value that
// receives the reference; the preserved cells are described by one quantified fact per heap key, emitted lazily.

type privRange struct {
	lo, hi Term // objects with lo < ref <= hi
}

type epochTransition struct {
	oldHeap  map[string]Term
	oldEpoch int
	priv     []privRange
}

// simpleReader: the function neither writes memory nor lets its arguments escape (getters).
func (e *Engine) simpleReader(fn *ssa.Function, depth int) bool {
	if v, ok := e.readerCache[fn]; ok {
		return v
	}
	if e.readerCache == nil {
		e.readerCache = map[*ssa.Function]bool{}
	}
	if len(fn.Blocks) == 0 || !e.inModule(fn) {
		return false
	}
	e.readerCache[fn] = false // in progress: members of a call cycle are conservatively not readers
	ok := true
	for _, b := range fn.Blocks {
		for _, in := range b.Instrs {
			switch x := in.(type) {
			case *ssa.Store, *ssa.MapUpdate, *ssa.Go, *ssa.Defer, *ssa.MakeClosure, *ssa.Send, *ssa.Select, *ssa.Panic:
				ok = false
			case *ssa.Call:
				c := x.Common()
				if _, isB := c.Value.(*ssa.Builtin); isB {
					if b := c.Value.(*ssa.Builtin); b.Name() != "len" && b.Name() != "cap" {
						ok = false
					}
					continue
				}
				callee := c.StaticCallee()
				if callee == nil || !e.simpleReader(callee, depth+1) {
					ok = false
				}
			}
		}
	}
	e.readerCache[fn] = ok
	return ok
}

// escapes: may a reference held in SSA value v (or derived from it) become reachable from outside the activation
// before the function returns?
func (e *Engine) escapes(v ssa.Value, seen map[ssa.Value]bool) bool {
	if seen[v] {
		return false
	}
	seen[v] = true
	refs := v.Referrers()
	if refs == nil {
		return true
	}
	for _, r := range *refs {
		switch x := r.(type) {
		case *ssa.DebugRef, *ssa.Return, *ssa.If:
		case *ssa.Store:
			if x.Val == v {
				// storing into a frame-local variable keeps it private as long as that variable's loads stay private
				if a, ok := x.Addr.(*ssa.Alloc); ok {
					if _, loc := e.localKey(a); loc {
						for _, lr := range *a.Referrers() {
							if ld, ok := lr.(*ssa.UnOp); ok && e.escapes(ld, seen) {
								return true
							}
							if _, ok := lr.(*ssa.MakeClosure); ok {
								return true
							}
						}
						continue
					}
				}
				return true
			}
		case *ssa.MapUpdate:
			if x.Key == v || x.Value == v {
				return true
			}
		case *ssa.UnOp, *ssa.BinOp, *ssa.Lookup, *ssa.Index, *ssa.Field, *ssa.Range, *ssa.Next:
			// reads: the loaded value is content, not this reference (Field of a struct value copies content)
		case *ssa.FieldAddr:
			if e.escapes(x, seen) {
				return true
			}
		case *ssa.IndexAddr:
			if e.escapes(x, seen) {
				return true
			}
		case *ssa.Slice:
			if e.escapes(x, seen) {
				return true
			}
		case *ssa.ChangeType:
			if e.escapes(x, seen) {
				return true
			}
		case *ssa.ChangeInterface:
			if e.escapes(x, seen) {
				return true
			}
		case *ssa.MakeInterface:
			if e.escapes(x, seen) {
				return true
			}
		case *ssa.TypeAssert:
			if e.escapes(x, seen) {
				return true
			}
		case *ssa.Extract:
			if e.escapes(x, seen) {
				return true
			}
		case *ssa.Phi:
			if e.escapes(x, seen) {
				return true
			}
		case *ssa.Call:
			c := x.Common()
			if b, ok := c.Value.(*ssa.Builtin); ok {
				switch b.Name() {
				case "len", "cap", "delete", "print", "println":
					continue
				case "append":
					// append(s, xs...): the result aliases s; appended elements escape into s's array
					if len(c.Args) > 0 && c.Args[0] == v {
						if e.escapes(x, seen) {
							return true
						}
						continue
					}
					return true
				}
				return true
			}
			if c.IsInvoke() {
				return true
			}
			callee := c.StaticCallee()
			if callee == nil {
				return true
			}
			if e.simpleReader(callee, 0) {
				// the result may be derived from the argument
				if e.escapes(x, seen) {
					return true
				}
				continue
			}
			ct := e.contractFor(callee)
			if ct != nil && e.inModule(callee) && !ct.Flags["trusted"] && (ct.Flags["pure"] || ct.Flags["noeffect"]) {
				// a verified pure callee writes only objects it allocates: the argument is not stored anywhere that
				// existed before; its result is a fresh object unless the contract says otherwise
				if !ct.Flags["fresh"] && e.escapes(x, seen) {
					return true
				}
				continue
			}
			if ct != nil && ct.HasMod && e.inModule(callee) {
				// the callee writes only what its modifies clause lists: v escapes only if a *different* parameter
				// roots a modified location (v could be stored there)
				idx := -1
				for i, a := range c.Args {
					if a == v {
						idx = i
					}
				}
				esc := false
				for _, m := range ct.Modifies {
					root := modifiesRoot(m)
					if root == "any" {
						esc = true
					}
					for i, p := range callee.Params {
						if p.Name() == root && i != idx {
							// another argument's object is modified: v may be stored into it — private only if that
							// argument is itself private (checked by its own analysis); be conservative
							esc = true
						}
					}
				}
				if esc {
					return true
				}
				continue
			}
			return true
		default:
			return true
		}
	}
	return false
}

func modifiesRoot(m ast.Expr) string {
	switch n := m.(type) {
	case *ast.Ident:
		return n.Name
	case *ast.StarExpr:
		return modifiesRoot(n.X)
	case *ast.SelectorExpr:
		return modifiesRoot(n.X)
	case *ast.IndexExpr:
		return modifiesRoot(n.X)
	case *ast.ParenExpr:
		return modifiesRoot(n.X)
	case *ast.CallExpr:
		if len(n.Args) > 0 {
			return modifiesRoot(n.Args[0])
		}
	}
	return "any"
}

func (e *Engine) isPrivateSite(v ssa.Value) bool {
	if p, ok := e.privCache[v]; ok {
		return p
	}
	if e.privCache == nil {
		e.privCache = map[ssa.Value]bool{}
	}
	p := !e.escapes(v, map[ssa.Value]bool{})
	e.privCache[v] = p
	return p
}

// notePrivate records that the objects allocated in (lo, hi] are private.
func (fx *FnExec) notePrivate(st *State, lo, hi Term) {
	if lo.S == hi.S {
		return
	}
	st.priv = append(st.priv, privRange{lo, hi})
}

// preserveFacts emits, for heap key `key`, that the new array agrees with the old one on every private object.
func (fx *FnExec) preserveFacts(key string, newArr, oldArr Term, priv []privRange) {
	if len(priv) == 0 || newArr.S == oldArr.S {
		return
	}
	if strings.HasPrefix(key, "Local.") || strings.HasPrefix(key, "Glob.") {
		return
	}
	var conds []string
	for _, r := range priv {
		conds = append(conds, fmt.Sprintf("(and (< %s p) (<= p %s))", r.lo.S, r.hi.S))
	}
	c := conds[0]
	if len(conds) > 1 {
		c = "(or " + strings.Join(conds, " ") + ")"
	}
	fx.ctx.Raw(fmt.Sprintf("(assert (forall ((p Int)) (! (=> %s (= (select %s p) (select %s p))) :pattern ((select %s p)))))", c, newArr.S, oldArr.S, newArr.S))
}

var _ = types.Typ


// allocOnly: the function writes only into objects it allocates itself and calls only readers / allocators.
func (e *Engine) allocOnly(fn *ssa.Function, depth int) bool {
	if v, ok := e.allocCache[fn]; ok {
		return v
	}
	if e.allocCache == nil {
		e.allocCache = map[*ssa.Function]bool{}
	}
	if len(fn.Blocks) == 0 || !e.inModule(fn) {
		return false
	}
	e.allocCache[fn] = false
	var rootIsOwn func(v ssa.Value) bool
	rootIsOwn = func(v ssa.Value) bool {
		switch x := v.(type) {
		case *ssa.Alloc, *ssa.MakeSlice, *ssa.MakeMap:
			return true
		case *ssa.FieldAddr:
			return rootIsOwn(x.X)
		case *ssa.IndexAddr:
			return rootIsOwn(x.X)
		case *ssa.Slice:
			return rootIsOwn(x.X)
		}
		return false
	}
	ok := true
	for _, b := range fn.Blocks {
		for _, in := range b.Instrs {
			switch x := in.(type) {
			case *ssa.Store:
				if !rootIsOwn(x.Addr) {
					ok = false
				}
			case *ssa.MapUpdate:
				if !rootIsOwn(x.Map) {
					ok = false
				}
			case *ssa.Go, *ssa.Defer, *ssa.MakeClosure, *ssa.Send, *ssa.Select:
				ok = false
			case *ssa.Call:
				c := x.Common()
				if _, isB := c.Value.(*ssa.Builtin); isB {
					continue
				}
				callee := c.StaticCallee()
				if callee == nil || !(e.simpleReader(callee, depth+1) || e.allocOnly(callee, depth+1)) {
					ok = false
				}
			}
		}
	}
	e.allocCache[fn] = ok
	return ok
}
