package main

import (
	"bytes"
	"context"
	"fmt"
	"os"
	"os/exec"
	"path/filepath"
	"strings"
	"sync"
	"time"
)

type solverSpec struct {
	name string
	args func(file string, timeoutS int) []string
}

var solvers = []solverSpec{
	{"z3-new-5.1.0", func(f string, t int) []string { return []string{"z3-new", fmt.Sprintf("-T:%d", t), f} }},
	{"z3-4.8.12", func(f string, t int) []string { return []string{"z3", fmt.Sprintf("-T:%d", t), f} }},
	{"cvc5-1.0", func(f string, t int) []string {
		return []string{"cvc5", fmt.Sprintf("--tlimit=%d", t*1000), "--produce-models", "--strings-exp", f}
	}},
}

func (o *Obligation) SMT() string {
	var b strings.Builder
	b.WriteString("(set-logic ALL)\n")
	b.WriteString(prelude)
	for _, l := range o.ctx.lines[:o.Prefix] {
		b.WriteString(l)
		b.WriteByte('\n')
	}
	for _, x := range o.Extra {
		b.WriteString("(assert " + x + ")\n")
	}
	b.WriteString("(assert " + o.Goal + ")\n(check-sat)\n(get-model)\n")
	return b.String()
}

// Discharge runs the solver race on one obligation.
func Discharge(o *Obligation, dir string, idx int, timeoutS int) {
	if o.Expect == "canary" && timeoutS > 3 {
		timeoutS = 3 // a canary only has to be "not provable": unknown is as good as sat
	}
	file := filepath.Join(dir, fmt.Sprintf("o%05d.smt2", idx))
	smt := o.SMT()
	if err := os.WriteFile(file, []byte(smt), 0o644); err != nil {
		o.Status, o.Detail = "unknown", err.Error()
		return
	}
	type answer struct {
		solver string
		verdict string
		out    string
		ms     int64
	}
	ctx, cancel := context.WithCancel(context.Background())
	defer cancel()
	ch := make(chan answer, len(solvers))
	for _, s := range solvers {
		s := s
		go func() {
			t0 := time.Now()
			a := s.args(file, timeoutS)
			cmd := exec.CommandContext(ctx, a[0], a[1:]...)
			var out bytes.Buffer
			cmd.Stdout = &out
			cmd.Stderr = &out
			_ = cmd.Run()
			first := strings.TrimSpace(strings.SplitN(out.String(), "\n", 2)[0])
			v := "unknown"
			switch first {
			case "sat", "unsat":
				v = first
			}
			ch <- answer{s.name, v, out.String(), time.Since(t0).Milliseconds()}
		}()
	}
	var unknowns []string
	for range solvers {
		a := <-ch
		if a.verdict == "unsat" {
			o.Status, o.Solver, o.TimeMS = "proved", a.solver, a.ms
			cancel()
			return
		}
		if a.verdict == "sat" {
			o.Status, o.Solver, o.TimeMS = "failed", a.solver, a.ms
			o.Model = a.out
			cancel()
			return
		}
		f := strings.TrimSpace(strings.SplitN(a.out, "\n", 2)[0])
		if len(f) > 120 {
			f = f[:120]
		}
		unknowns = append(unknowns, a.solver+": "+f)
	}
	o.Status = "unknown"
	o.Detail = strings.Join(unknowns, " | ")
}

// DischargeAll discharges obligations in parallel.
func DischargeAll(obls []*Obligation, dir string, timeoutS, workers int) {
	var wg sync.WaitGroup
	sem := make(chan struct{}, workers)
	for i, o := range obls {
		if o.Status != "" {
			continue
		}
		wg.Add(1)
		sem <- struct{}{}
		go func(i int, o *Obligation) {
			defer wg.Done()
			defer func() { <-sem }()
			Discharge(o, dir, i, timeoutS)
		}(i, o)
	}
	wg.Wait()
}
