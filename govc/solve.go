package main

import (
	"bytes"
	"context"
	"fmt"
	"os"
	"os/exec"
	"path/filepath"
	"strings"
	"sync"
	"time"
)

type solverSpec struct {
	name string
	args func(file string, timeoutS int) []string
}

var solvers = []solverSpec{
	{"z3-new-5.1.0", func(f string, t int) []string { return []string{"z3-new", fmt.Sprintf("-T:%d", t), f} }},
	{"z3-4.8.12", func(f string, t int) []string { return []string{"z3", fmt.Sprintf("-T:%d", t), f} }},
	{"cvc5-1.0", func(f string, t int) []string {
		return []string{"cvc5", fmt.Sprintf("--tlimit=%d", t*1000), "--produce-models", "--strings-exp", f}
	}},
}

// SMTLite: the obligation without the universally quantified assumptions (their instances at the goal's skolem
// constants stay). Dropping assumptions is sound for a proof; "sat" from this variant means nothing.
func (o *Obligation) SMTLite() (string, bool) {
	var b strings.Builder
	b.WriteString("(set-logic ALL)\n")
	b.WriteString(prelude)
	dropped := false
	var keep []bool
	if !noPrune && !o.NoPrune {
		keep = o.relevantLines()
	}
	for i, l := range o.ctx.lines[:o.Prefix] {
		if keep != nil && !keep[i] {
			continue
		}
		if strings.Contains(l, "(forall ") || strings.Contains(l, "(exists ") {
			if strings.HasPrefix(l, "(assert ") {
				dropped = true
				continue
			}
			return "", false // a definition with a quantifier inside: no lite variant
		}
		b.WriteString(l)
		b.WriteByte('\n')
	}
	if !dropped {
		return "", false
	}
	for _, x := range o.Extra {
		b.WriteString("(assert " + x + ")\n")
	}
	b.WriteString("(assert " + o.Goal + ")\n(check-sat)\n")
	return b.String(), true
}

// lineSyms caches, per context line, the quoted symbols it mentions (the first one is the symbol a declaration or
// definition introduces).
type lineInfo struct {
	kind byte // 'd' declaration / definition, 'a' assertion, 'o' other
	def  string
	syms []string
}

func (c *Ctx) info(i int) *lineInfo {
	c.infoMu.Lock()
	defer c.infoMu.Unlock()
	for len(c.infos) <= i {
		c.infos = append(c.infos, nil)
	}
	if c.infos[i] != nil {
		return c.infos[i]
	}
	l := c.lines[i]
	li := &lineInfo{kind: 'o'}
	switch {
	case strings.HasPrefix(l, "(declare-const "), strings.HasPrefix(l, "(declare-fun "), strings.HasPrefix(l, "(define-fun "):
		li.kind = 'd'
	case strings.HasPrefix(l, "(assert "):
		li.kind = 'a'
	}
	seen := map[string]bool{}
	for j := 0; j < len(l); j++ {
		switch l[j] {
		case '"':
			for j++; j < len(l); j++ {
				if l[j] == '"' {
					if j+1 < len(l) && l[j+1] == '"' {
						j++
						continue
					}
					break
				}
			}
		case '|':
			k := strings.IndexByte(l[j+1:], '|')
			if k < 0 {
				j = len(l)
				break
			}
			sym := l[j : j+k+2]
			if li.kind == 'd' && li.def == "" {
				li.def = sym
			} else if !seen[sym] {
				seen[sym] = true
				li.syms = append(li.syms, sym)
			}
			j += k + 1
		}
	}
	c.infos[i] = li
	return li
}

// ubiquitous symbols do not make an assertion relevant on their own: parameters, the entry heap, the entry watermark
func ubiquitous(sym string) bool {
	return strings.HasPrefix(sym, "|pc!") || strings.HasPrefix(sym, "|p!") || sym == "|wm0|" || (strings.HasPrefix(sym, "|H!") && strings.HasSuffix(sym, "!e0|")) ||
		sym == "|arrtype|" || sym == "|maptype|" || strings.HasPrefix(sym, "|fn!") || strings.HasPrefix(sym, "|iterkey")
}

// relevantLines: the context lines in the cone of influence of the goal — the definitions it (transitively) mentions
// and the assertions that speak about a symbol of the cone. Dropping the other assertions only weakens the
// assumptions, so a proof of the pruned obligation is a proof of the full one.
func (o *Obligation) relevantLines() []bool {
	c := o.ctx
	n := o.Prefix
	keep := make([]bool, n)
	in := map[string]bool{}
	var addSyms func(text string)
	addSyms = func(text string) {
		for j := 0; j < len(text); j++ {
			if text[j] == '|' {
				k := strings.IndexByte(text[j+1:], '|')
				if k < 0 {
					return
				}
				in[text[j:j+k+2]] = true
				j += k + 1
			}
		}
	}
	addSyms(o.Goal)
	for _, x := range o.Extra {
		addSyms(x)
	}
	for changed := true; changed; {
		changed = false
		for i := n - 1; i >= 0; i-- {
			if keep[i] {
				continue
			}
			li := c.info(i)
			switch li.kind {
			case 'd':
				if in[li.def] {
					keep[i] = true
					changed = true
					for _, s := range li.syms {
						in[s] = true
					}
				}
			case 'a':
				rel := false
				all := true
				for _, s := range li.syms {
					if in[s] {
						if !ubiquitous(s) {
							rel = true
						}
					} else if !strings.HasPrefix(s, "|q!") && !ubiquitous(s) {
						all = false
					}
				}
				if rel || (all && len(li.syms) > 0) {
					keep[i] = true
					changed = true
					for _, s := range li.syms {
						in[s] = true
					}
				}
			default:
				keep[i] = true
			}
		}
	}
	return keep
}

var noPrune = os.Getenv("GOVC_NOPRUNE") != ""

func (o *Obligation) SMT() string {
	var b strings.Builder
	b.WriteString("(set-logic ALL)\n")
	b.WriteString(prelude)
	var keep []bool
	if !noPrune && !o.NoPrune && o.Expect != "canary" {
		keep = o.relevantLines()
	}
	for i, l := range o.ctx.lines[:o.Prefix] {
		if keep != nil && !keep[i] {
			continue
		}
		b.WriteString(l)
		b.WriteByte('\n')
	}
	for _, x := range o.Extra {
		b.WriteString("(assert " + x + ")\n")
	}
	b.WriteString("(assert " + o.Goal + ")\n(check-sat)\n(get-model)\n")
	return b.String()
}

// Discharge runs the solver race on one obligation.
func Discharge(o *Obligation, dir string, idx int, timeoutS int) {
	if o.ctx == nil {
		if o.Status == "" {
			o.Status = "unknown"
		}
		return
	}
	if o.Expect == "canary" && timeoutS > 3 {
		timeoutS = 3 // a canary only has to be "not provable": unknown is as good as sat
	}
	file := filepath.Join(dir, fmt.Sprintf("o%05d.smt2", idx))
	smt := o.SMT()
	if err := os.WriteFile(file, []byte(smt), 0o644); err != nil {
		o.Status, o.Detail = "unknown", err.Error()
		return
	}
	type answer struct {
		solver string
		verdict string
		out    string
		ms     int64
	}
	ctx, cancel := context.WithCancel(context.Background())
	defer cancel()
	nruns := len(solvers)
	liteFile := ""
	if lite, ok := o.SMTLite(); ok && o.Expect != "canary" {
		liteFile = filepath.Join(dir, fmt.Sprintf("o%05d.lite.smt2", idx))
		if err := os.WriteFile(liteFile, []byte(lite), 0o644); err == nil {
			nruns += 2
		} else {
			liteFile = ""
		}
	}
	plainFile := ""
	if o.PlainGoal != "" && o.Expect != "canary" {
		plainFile = filepath.Join(dir, fmt.Sprintf("o%05d.plain.smt2", idx))
		full := o.SMT()
		k := strings.LastIndex(full, "(assert "+o.Goal+")")
		if k >= 0 {
			// drop the instances too: this variant is the obligation exactly as it was before skolemisation
			head := full[:k]
			for _, x := range o.Extra {
				head = strings.Replace(head, "(assert "+x+")\n", "", 1)
			}
			plain := head + "(assert " + o.PlainGoal + ")\n(check-sat)\n"
			if err := os.WriteFile(plainFile, []byte(plain), 0o644); err == nil {
				nruns += 2
			} else {
				plainFile = ""
			}
		} else {
			plainFile = ""
		}
	}
	ch := make(chan answer, nruns)
	if plainFile != "" {
		for _, s := range []solverSpec{solvers[0], solvers[1]} {
			s := s
			go func() {
				t0 := time.Now()
				a := s.args(plainFile, timeoutS)
				cmd := exec.CommandContext(ctx, a[0], a[1:]...)
				var out bytes.Buffer
				cmd.Stdout = &out
				cmd.Stderr = &out
				_ = cmd.Run()
				first := strings.TrimSpace(strings.SplitN(out.String(), "\n", 2)[0])
				v := "unknown"
				if first == "unsat" {
					v = "unsat"
				}
				ch <- answer{s.name + "/plain", v, out.String(), time.Since(t0).Milliseconds()}
			}()
		}
	}
	if liteFile != "" {
		for _, s := range []solverSpec{solvers[0], solvers[2]} {
			s := s
			go func() {
				t0 := time.Now()
				a := s.args(liteFile, timeoutS)
				cmd := exec.CommandContext(ctx, a[0], a[1:]...)
				var out bytes.Buffer
				cmd.Stdout = &out
				cmd.Stderr = &out
				_ = cmd.Run()
				first := strings.TrimSpace(strings.SplitN(out.String(), "\n", 2)[0])
				v := "unknown"
				if first == "unsat" {
					v = "unsat" // only a proof counts: assumptions were dropped
				}
				ch <- answer{s.name + "/lite", v, out.String(), time.Since(t0).Milliseconds()}
			}()
		}
	}
	for _, s := range solvers {
		s := s
		go func() {
			t0 := time.Now()
			a := s.args(file, timeoutS)
			cmd := exec.CommandContext(ctx, a[0], a[1:]...)
			var out bytes.Buffer
			cmd.Stdout = &out
			cmd.Stderr = &out
			_ = cmd.Run()
			first := strings.TrimSpace(strings.SplitN(out.String(), "\n", 2)[0])
			v := "unknown"
			switch first {
			case "sat", "unsat":
				v = first
			}
			ch <- answer{s.name, v, out.String(), time.Since(t0).Milliseconds()}
		}()
	}
	var unknowns []string
	for i := 0; i < nruns; i++ {
		a := <-ch
		if a.verdict == "unsat" {
			o.Status, o.Solver, o.TimeMS = "proved", a.solver, a.ms
			cancel()
			return
		}
		if a.verdict == "sat" {
			o.Status, o.Solver, o.TimeMS = "failed", a.solver, a.ms
			o.Model = a.out
			cancel()
			return
		}
		f := strings.TrimSpace(strings.SplitN(a.out, "\n", 2)[0])
		if len(f) > 120 {
			f = f[:120]
		}
		unknowns = append(unknowns, a.solver+": "+f)
	}
	o.Status = "unknown"
	o.Detail = strings.Join(unknowns, " | ")
}

// DischargeAll discharges obligations in parallel.
func DischargeAll(obls []*Obligation, dir string, timeoutS, workers int) {
	var wg sync.WaitGroup
	sem := make(chan struct{}, workers)
	for i, o := range obls {
		if o.Status != "" {
			continue
		}
		wg.Add(1)
		sem <- struct{}{}
		go func(i int, o *Obligation) {
			defer wg.Done()
			defer func() { <-sem }()
			Discharge(o, dir, i, timeoutS)
		}(i, o)
	}
	wg.Wait()
}
