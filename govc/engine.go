package main

import (
	"bytes"
	"fmt"
	"go/ast"
	"go/printer"
	"go/token"
	"go/types"
	"os"
	"sort"
	"strings"

	"golang.org/x/tools/go/packages"
	"golang.org/x/tools/go/ssa"
	"golang.org/x/tools/go/ssa/ssautil"
)

const modulePath = "github.com/anz-bank/sysl"

type Engine struct {
	repo      string
	modPath   string
	prog      *ssa.Program
	pkgs      []*packages.Package
	spkgs     map[string]*ssa.Package
	contracts *ContractSet
	typeIDs   map[string]int
	funcIDs   map[*ssa.Function]int
	loops     map[*ssa.Function]*loopInfo
	direct    map[*ssa.Function]*modInfo
	closure   map[*ssa.Function]*modInfo
	fileAST   map[string]*ast.File
	trusted   map[string]bool // trusted specs used
	srcCache  map[string][]byte
	localKeys map[*ssa.Alloc]string
	localOwner map[string]*ssa.Function
	subIdx    map[string]int
	readerCache map[*ssa.Function]bool
	privCache map[ssa.Value]bool
	allocCache map[*ssa.Function]bool
	emitters  map[*ssa.Function]string
	unsortedRet map[*ssa.Function]bool
}

func (e *Engine) subIndex(key string) int {
	if e.subIdx == nil {
		e.subIdx = map[string]int{}
	}
	if i, ok := e.subIdx[key]; ok {
		return i
	}
	// stable small index from the key text
	h := 0
	for _, c := range []byte(key) {
		h = (h*131 + int(c)) % 1021
	}
	i := 1 + h
	for used := true; used; {
		used = false
		for _, v := range e.subIdx {
			if v == i {
				i = 1 + (i % 1021)
				used = true
			}
		}
	}
	e.subIdx[key] = i
	return i
}

// ownsLocal: may code running in an activation of fn (or a closure nested in it) name this frame-local key?
// Locals of other functions' activations (including recursive instances reached through calls) are never ours.
// iterKey: the frame-local ghost counter of a range-over-map iterator.
func (e *Engine) iterKey(rg *ssa.Range) string {
	k := fmt.Sprintf("Local.%s.#iter.%s", e.shortName(rg.Parent()), rg.Name())
	if e.localOwner == nil {
		e.localOwner = map[string]*ssa.Function{}
	}
	e.localOwner[k] = rg.Parent()
	return k
}

func (e *Engine) ownsLocal(fn *ssa.Function, key string) bool {
	owner := e.localOwner[key]
	for f := fn; f != nil; f = f.Parent() {
		if f == owner {
			return true
		}
	}
	return false
}

type modInfo struct {
	keys    map[string]Sort
	own     map[string]Sort // stores to the function's own frame-local variables (invisible to callers)
	any     bool
	callees []*ssa.Function
}

func LoadEngine(repo string, patterns []string, specDir string) (*Engine, error) {
	cfg := &packages.Config{Mode: packages.LoadAllSyntax, Dir: repo, BuildFlags: []string{"-tags=verif"},
		Env: append(os.Environ(), "GOFLAGS=-mod=mod", "GOPROXY=off", "GOSUMDB=off", "GOTOOLCHAIN=local")}
	pkgs, err := packages.Load(cfg, patterns...)
	if err != nil {
		return nil, err
	}
	var errs []string
	packages.Visit(pkgs, nil, func(p *packages.Package) {
		if strings.HasPrefix(p.PkgPath, modulePath) {
			for _, e := range p.Errors {
				errs = append(errs, e.Error())
			}
		}
	})
	if len(errs) > 0 {
		return nil, fmt.Errorf("package errors: %s", strings.Join(errs, "; "))
	}
	prog, _ := ssautil.AllPackages(pkgs, ssa.GlobalDebug|ssa.InstantiateGenerics)
	prog.Build()
	e := &Engine{repo: repo, prog: prog, pkgs: pkgs, spkgs: map[string]*ssa.Package{}, typeIDs: map[string]int{}, funcIDs: map[*ssa.Function]int{},
		loops: map[*ssa.Function]*loopInfo{}, direct: map[*ssa.Function]*modInfo{}, closure: map[*ssa.Function]*modInfo{},
		fileAST: map[string]*ast.File{}, trusted: map[string]bool{}, srcCache: map[string][]byte{}}
	for _, p := range prog.AllPackages() {
		e.spkgs[p.Pkg.Path()] = p
	}
	isLocalStructAddr = func(v ssa.Value) bool {
		switch a := v.(type) {
		case *ssa.Alloc:
			_, ok := e.localKey(a)
			return ok && isStruct(a.Type().(*types.Pointer).Elem())
		case *ssa.FieldAddr:
			_, ft, ok := e.localFieldAddrKey(a)
			return ok && isStruct(ft)
		}
		return false
	}
	cs, err := LoadAllContracts(repo, specDir, modulePath)
	if err != nil {
		return nil, err
	}
	e.contracts = cs
	return e, nil
}

func (e *Engine) pkgByPath(path string) *types.Package {
	if p, ok := e.spkgs[path]; ok {
		return p.Pkg
	}
	return nil
}

func (e *Engine) typeID(t types.Type) int {
	k := types.TypeString(t, nil)
	if id, ok := e.typeIDs[k]; ok {
		return id
	}
	// stable id: hash of the type string (so models are comparable between runs)
	h := 0
	for _, c := range []byte(k) {
		h = (h*131 + int(c)) % 1000003
	}
	id := 1000 + h
	for used := true; used; {
		used = false
		for _, v := range e.typeIDs {
			if v == id {
				id++
				used = true
			}
		}
	}
	e.typeIDs[k] = id
	return id
}

func (e *Engine) funcID(f *ssa.Function) int {
	if id, ok := e.funcIDs[f]; ok {
		return id
	}
	id := len(e.funcIDs) + 1
	e.funcIDs[f] = id
	return id
}

func (e *Engine) loopsOf(fn *ssa.Function) *loopInfo {
	if li, ok := e.loops[fn]; ok {
		return li
	}
	li := analyzeLoops(fn)
	e.loops[fn] = li
	return li
}

// shortName: package-name-qualified function name, e.g. grammar.(*stack).Pop
func (e *Engine) shortName(fn *ssa.Function) string {
	root := fn
	for root.Parent() != nil {
		root = root.Parent()
	}
	if root.Pkg == nil {
		return fn.String()
	}
	rel := fn.RelString(root.Pkg.Pkg)
	return pkgShort(root.Pkg.Pkg.Path()) + "." + rel
}

// pkgShort: module-relative package path without the leading pkg/ (pkg/grammar -> grammar).
func pkgShort(path string) string {
	p := strings.TrimPrefix(path, modulePath+"/")
	p = strings.TrimPrefix(p, "pkg/")
	return p
}

func (e *Engine) inModule(fn *ssa.Function) bool {
	root := fn
	for root.Parent() != nil {
		root = root.Parent()
	}
	return root.Pkg != nil && strings.HasPrefix(root.Pkg.Pkg.Path(), modulePath)
}

// contractFor finds the contract of a function (repo contract file or /verif/specs).
func (e *Engine) contractFor(fn *ssa.Function) *FuncContract {
	root := fn
	for root.Parent() != nil {
		root = root.Parent()
	}
	if root.Pkg != nil {
		rel := fn.RelString(root.Pkg.Pkg)
		if c, ok := e.contracts.Funcs[root.Pkg.Pkg.Path()+"::"+rel]; ok {
			// a function named explicitly also carries the clauses of the first wildcard contract that matches it
			// (assertions, ghost anchors, marks): wildcard contracts state what holds for every callback of a family
			if !c.mergedWild {
				c.mergedWild = true
				for _, w := range e.contracts.Wild {
					if w.PkgPath == root.Pkg.Pkg.Path() && globMatch(w.Name, rel) {
						have := map[string]bool{}
						for _, a := range c.Asserts {
							have[a.Anchor+"|"+a.Clause.Label] = true
						}
						for _, a := range w.Asserts {
							if !have[a.Anchor+"|"+a.Clause.Label] {
								a.Wild = true
								c.Asserts = append(c.Asserts, a)
							}
						}
						for _, g := range w.GhostSets {
							g.Wild = true
							c.GhostSets = append(c.GhostSets, g)
						}
						for _, g := range w.GhostClrs {
							g.Wild = true
							c.GhostClrs = append(c.GhostClrs, g)
						}
						c.Marks = append(c.Marks, w.Marks...)
						haveR := map[string]bool{}
						for _, r := range c.Requires {
							haveR[r.Src] = true
						}
						for _, r := range w.Requires {
							if !haveR[r.Src] {
								c.Requires = append(c.Requires, r)
							}
						}
						c.Ensures = append(c.Ensures, w.Ensures...)
						if !c.HasMod && w.HasMod {
							c.HasMod, c.Modifies, c.ModSrc = true, w.Modifies, w.ModSrc
						}
						for k, v := range w.Flags {
							if _, has := c.Flags[k]; !has {
								c.Flags[k] = v
							}
						}
						break
					}
				}
			}
			return c
		}
	}
	if c, ok := e.contracts.Funcs["::"+fn.String()]; ok {
		return c
	}
	// contracts for external functions written in a package's contract file under their full name
	if !e.inModule(fn) {
		full := fn.String()
		for k, c := range e.contracts.Funcs {
			if strings.HasSuffix(k, "::"+full) {
				return c
			}
		}
	}
	// wildcard contracts of the function's package, in file order
	if root.Pkg != nil {
		rel := fn.RelString(root.Pkg.Pkg)
		for _, w := range e.contracts.Wild {
			if w.PkgPath == root.Pkg.Pkg.Path() && globMatch(w.Name, rel) {
				return w
			}
		}
	}
	return nil
}

func globMatch(pat, s string) bool {
	parts := strings.Split(pat, "*")
	// the leading "(*T)" of method names contains a literal '*': patterns use '%' as the wildcard
	_ = parts
	segs := strings.Split(pat, "%")
	if len(segs) == 1 {
		return pat == s
	}
	if !strings.HasPrefix(s, segs[0]) {
		return false
	}
	s = s[len(segs[0]):]
	for i := 1; i < len(segs)-1; i++ {
		j := strings.Index(s, segs[i])
		if j < 0 {
			return false
		}
		s = s[j+len(segs[i]):]
	}
	return strings.HasSuffix(s, segs[len(segs)-1])
}

func (e *Engine) usedContract(fx *FnExec, ct *FuncContract) {
	if ct.Flags["trusted"] || ct.PkgPath == "" {
		fx.note("trusted contract: " + ct.Name)
	} else {
		fx.note("callee contract used: " + ct.Name)
	}
}

func (e *Engine) mayAlloc(fn *ssa.Function) bool { return true }

// deferredHavoc havocs a field key that has not been touched yet (sort looked up from the program's types).
func (e *Engine) deferredHavoc(fx *FnExec, st *State, key string) {
	name := strings.TrimPrefix(key, "F.")
	i := strings.LastIndex(name, ".")
	if i > 0 {
		tn, fld := name[:i], name[i+1:]
		for _, p := range e.prog.AllPackages() {
			j := strings.LastIndex(tn, ".")
			if j < 0 || p.Pkg.Name() != tn[:j] {
				continue
			}
			if obj := p.Pkg.Scope().Lookup(tn[j+1:]); obj != nil {
				for _, f := range structFields(obj.Type()) {
					if f.Name() == fld && typeKey(obj.Type()) == tn {
						fx.keySort[key] = ArraySort(SInt, sortOf(f.Type()))
						st.heap[key] = fx.ctx.Fresh("mod."+key, fx.keySort[key])
						return
					}
				}
			}
		}
	}
	fx.unsupported = append(fx.unsupported, "modifies: unknown field key "+key)
	fx.newEpoch(st)
}

// ---- source snippets for stable obligation labels

func (e *Engine) fileOf(pos token.Pos) *ast.File {
	if !pos.IsValid() {
		return nil
	}
	tf := e.prog.Fset.File(pos)
	if tf == nil {
		return nil
	}
	if f, ok := e.fileAST[tf.Name()]; ok {
		return f
	}
	var found *ast.File
	packages.Visit(e.pkgs, nil, func(p *packages.Package) {
		for _, f := range p.Syntax {
			if e.prog.Fset.File(f.Pos()) == tf {
				found = f
			}
		}
	})
	e.fileAST[tf.Name()] = found
	return found
}

// snippetNode returns the source text of the smallest expression starting at pos (used in labels).
func (e *Engine) snippetNode(pos token.Pos, fn *ssa.Function, n ssa.Node) string {
	if !pos.IsValid() {
		return "synthetic"
	}
	f := e.fileOf(pos)
	if f == nil {
		return "?"
	}
	var best ast.Node
	ast.Inspect(f, func(x ast.Node) bool {
		if x == nil {
			return false
		}
		if x.Pos() > pos || x.End() <= pos {
			return false
		}
		switch y := x.(type) {
		case *ast.IndexExpr:
			if y.Lbrack == pos || y.Pos() == pos {
				best = x
			}
		case *ast.SliceExpr:
			if y.Lbrack == pos || y.Pos() == pos {
				best = x
			}
		case *ast.CallExpr:
			if y.Lparen == pos || y.Pos() == pos {
				best = x
			}
		case *ast.SelectorExpr:
			if y.Sel.Pos() == pos || y.Pos() == pos {
				best = x
			}
		case *ast.StarExpr, *ast.UnaryExpr, *ast.TypeAssertExpr, *ast.BinaryExpr:
			if x.Pos() == pos {
				best = x
			}
			if b, ok := x.(*ast.BinaryExpr); ok && b.OpPos == pos {
				best = x
			}
			if t, ok := x.(*ast.TypeAssertExpr); ok && t.Lparen == pos {
				best = x
			}
		case *ast.AssignStmt:
			if y.TokPos == pos && best == nil {
				best = y.Lhs[0]
			}
		case *ast.IncDecStmt:
			if y.TokPos == pos {
				best = y.X
			}
		case *ast.RangeStmt:
			if y.For == pos || y.TokPos == pos {
				best = y.X
			}
		case *ast.Ident:
			if y.Pos() == pos && best == nil {
				best = x
			}
		}
		return true
	})
	if best == nil {
		return "?"
	}
	var buf bytes.Buffer
	printer.Fprint(&buf, e.prog.Fset, best)
	s := strings.Join(strings.Fields(buf.String()), " ")
	if len(s) > 60 {
		s = s[:60] + "…"
	}
	return s
}

func (e *Engine) snippet(pos token.Pos, v ssa.Value) string {
	if c, ok := v.(*ssa.MakeInterface); ok {
		if k, ok := c.X.(*ssa.Const); ok && k.Value != nil {
			s := k.Value.ExactString()
			if len(s) > 50 {
				s = s[:50] + "…"
			}
			return s
		}
	}
	return e.snippetNode(pos, nil, nil)
}

// ---- mod-sets

func (e *Engine) keyOfAddr(addr ssa.Value) (map[string]Sort, bool) {
	out := map[string]Sort{}
	elem := addr.Type().Underlying().(*types.Pointer).Elem()
	switch a := addr.(type) {
	case *ssa.Alloc:
		if k, ok := e.localKey(a); ok {
			if isStruct(elem) {
				e.localFieldKeys(k, elem, out, 0)
				return out, false
			}
			out[k] = ArraySort(SInt, sortOf(elem))
			return out, false
		}
	case *ssa.FieldAddr:
		if k, ft, ok := e.localFieldAddrKey(a); ok {
			if isStruct(ft) {
				e.localFieldKeys(k, ft, out, 0)
			} else if !isArray(ft) {
				out[k] = ArraySort(SInt, sortOf(ft))
				e.localOwner[k] = e.localOwner[rootLocalKey(e, k)]
			}
			return out, false
		}
	case *ssa.FreeVar:
		if k, ok := e.freeVarLocalKey(a); ok {
			out[k] = ArraySort(SInt, sortOf(elem))
			return out, false
		}
	}
	var addStruct func(t types.Type)
	depth := 0
	addStruct = func(t types.Type) {
		depth++
		defer func() { depth-- }()
		if depth > 4 {
			return
		}
		for _, f := range structFields(t) {
			if isStruct(f.Type()) {
				addStruct(f.Type())
			} else if !isArray(f.Type()) {
				out[fieldKey(t, f.Name())] = ArraySort(SInt, sortOf(f.Type()))
			}
		}
	}
	switch a := addr.(type) {
	case *ssa.FieldAddr:
		stT := a.X.Type().Underlying().(*types.Pointer).Elem()
		f := stT.Underlying().(*types.Struct).Field(a.Field)
		if isStruct(f.Type()) {
			addStruct(f.Type())
		} else if !isArray(f.Type()) {
			out[fieldKey(stT, f.Name())] = ArraySort(SInt, sortOf(f.Type()))
		}
		return out, false
	case *ssa.IndexAddr:
		if isStruct(elem) {
			addStruct(elem)
		} else {
			out[elemKey(sortOf(elem))] = ArraySort(SInt, ArraySort(SInt, sortOf(elem)))
		}
		return out, false
	case *ssa.Global:
		if isStruct(elem) {
			addStruct(elem)
		} else if !isArray(elem) {
			out["Glob."+a.Pkg.Pkg.Name()+"."+a.Name()] = ArraySort(SInt, sortOf(elem))
		}
		return out, false
	}
	if isStruct(elem) {
		addStruct(elem)
	} else if isArray(elem) {
		at := elem.Underlying().(*types.Array)
		out[elemKey(sortOf(at.Elem()))] = ArraySort(SInt, ArraySort(SInt, sortOf(at.Elem())))
	} else {
		out[cellKey(sortOf(elem))] = ArraySort(SInt, sortOf(elem))
	}
	return out, false
}

func mapModKeys(mt *types.Map, out map[string]Sort) {
	dk, vk, ks, vs := mapKeys(mt)
	out[dk] = ArraySort(SInt, ArraySort(ks, SBool))
	out[vk] = ArraySort(SInt, ArraySort(ks, vs))
	out["MLen"] = ArraySort(SInt, SInt)
}

// instrMods adds the heap keys an instruction may write.
func (e *Engine) instrMods(in ssa.Instruction, mi *modInfo) {
	switch x := in.(type) {
	case *ssa.Store:
		ks, _ := e.keyOfAddr(x.Addr)
		_, isAlloc := x.Addr.(*ssa.Alloc)
		if fa, ok := x.Addr.(*ssa.FieldAddr); ok {
			if _, _, loc := e.localFieldAddrKey(fa); loc {
				isAlloc = true
			}
		}
		for k, s := range ks {
			if isAlloc && strings.HasPrefix(k, "Local.") {
				if mi.own == nil {
					mi.own = map[string]Sort{}
				}
				mi.own[k] = s
				continue
			}
			mi.keys[k] = s
		}
	case *ssa.Next:
		if rg, ok := x.Iter.(*ssa.Range); ok && !x.IsString && isMap(rg.X.Type()) {
			if mi.own == nil {
				mi.own = map[string]Sort{}
			}
			mi.own[e.iterKey(rg)] = SInt
		}
	case *ssa.MapUpdate:
		mapModKeys(x.Map.Type().Underlying().(*types.Map), mi.keys)
	case *ssa.MakeMap:
		mapModKeys(x.Type().Underlying().(*types.Map), mi.keys)
	case *ssa.MakeSlice:
		et := x.Type().Underlying().(*types.Slice).Elem()
		mi.keys[elemKey(sortOf(et))] = ArraySort(SInt, ArraySort(SInt, sortOf(et)))
	case *ssa.Alloc:
		ks, _ := e.keyOfAddr(x)
		for k, s := range ks {
			if strings.HasPrefix(k, "Local.") {
				if mi.own == nil {
					mi.own = map[string]Sort{}
				}
				mi.own[k] = s
				continue
			}
			mi.keys[k] = s
		}
	case *ssa.MakeInterface:
		t := x.X.Type()
		if !(isRefLike(t) || isStruct(t) || isArray(t)) {
			s := sortOf(t)
			mi.keys["Box."+string(s)] = ArraySort(SInt, s)
		}
	case *ssa.UnOp:
		if x.Op == token.MUL {
			elem := x.X.Type().Underlying().(*types.Pointer).Elem()
			if isStruct(elem) && !structLoadIsReadOnly(x) {
				ks, _ := e.keyOfAddr(x.X)
				for k, s := range ks {
					mi.keys[k] = s
				}
			}
			if isArray(elem) {
				at := elem.Underlying().(*types.Array)
				mi.keys[elemKey(sortOf(at.Elem()))] = ArraySort(SInt, ArraySort(SInt, sortOf(at.Elem())))
			}
		}
		if x.Op == token.ARROW {
			mi.any = true
		}
	case *ssa.Convert:
		if sortOf(x.X.Type()) == SString && sortOf(x.Type()) == SSlice {
			mi.keys[elemKey(SInt)] = ArraySort(SInt, ArraySort(SInt, SInt))
		}
	case *ssa.Send, *ssa.Select:
		mi.any = true
	case ssa.CallInstruction:
		c := x.Common()
		if c.IsInvoke() {
			ks, any := e.invokeMods(c)
			if any {
				mi.any = true
			}
			for k, s := range ks {
				mi.keys[k] = s
			}
			return
		}
		if b, ok := c.Value.(*ssa.Builtin); ok {
			switch b.Name() {
			case "append", "copy":
				if stT, ok := c.Args[0].Type().Underlying().(*types.Slice); ok {
					mi.keys[elemKey(sortOf(stT.Elem()))] = ArraySort(SInt, ArraySort(SInt, sortOf(stT.Elem())))
					if isStruct(stT.Elem()) {
						structFieldKeys(stT.Elem(), mi.keys, 0)
					}
				}
			case "delete":
				mapModKeys(c.Args[0].Type().Underlying().(*types.Map), mi.keys)
			}
			return
		}
		// a callee may write through address arguments (&x.f, &a[i], &global, &local)
		for _, a := range c.Args {
			switch a.(type) {
			case *ssa.FieldAddr, *ssa.IndexAddr, *ssa.Global, *ssa.Alloc:
				if _, ok := a.Type().Underlying().(*types.Pointer); ok {
					ks, _ := e.keyOfAddr(a)
					for k, s := range ks {
						mi.keys[k] = s
					}
				}
			}
		}
		callee := c.StaticCallee()
		if callee == nil {
			mi.any = true
			return
		}
		mi.callees = append(mi.callees, callee)
	}
}

func (e *Engine) invokeMods(c *ssa.CallCommon) (map[string]Sort, bool) {
	name := "iface:" + ifaceMethodName(c.Value.Type(), c.Method)
	if ct := e.contracts.Funcs["::"+name]; ct != nil {
		if ct.Flags["pure"] || ct.Flags["noeffect"] || ct.Flags["deterministic"] || (ct.HasMod && len(ct.Modifies) == 0) {
			return nil, false
		}
		return nil, true
	}
	// interface declared in the module: implementations are module code
	if nt, ok := c.Value.Type().(*types.Named); ok && nt.Obj().Pkg() != nil && strings.HasPrefix(nt.Obj().Pkg().Path(), modulePath) {
		return nil, true
	}
	// external interface: assumed to write only memory type-reachable from its arguments
	keys := map[string]Sort{}
	for _, a := range c.Args {
		typeReach(a.Type(), keys, map[string]bool{}, 0)
	}
	return keys, false
}

// typeReach collects heap keys reachable from a value of type t.
func typeReach(t types.Type, out map[string]Sort, seen map[string]bool, depth int) {
	if depth > 6 {
		return
	}
	k := types.TypeString(t, nil)
	if seen[k] {
		return
	}
	seen[k] = true
	switch u := t.Underlying().(type) {
	case *types.Pointer:
		el := u.Elem()
		if isStruct(el) {
			typeReach(el, out, seen, depth+1)
		} else if isArray(el) {
			typeReach(el, out, seen, depth+1)
		} else {
			out[cellKey(sortOf(el))] = ArraySort(SInt, sortOf(el))
			typeReach(el, out, seen, depth+1)
		}
	case *types.Struct:
		external := false
		if nt, ok := t.(*types.Named); ok && nt.Obj().Pkg() != nil && !strings.HasPrefix(nt.Obj().Pkg().Path(), modulePath) {
			external = true
		}
		for i := 0; i < u.NumFields(); i++ {
			f := u.Field(i)
			if external && !f.Exported() {
				continue // library-private memory cannot alias anything module code reads
			}
			if !isStruct(f.Type()) && !isArray(f.Type()) {
				out[fieldKey(t, f.Name())] = ArraySort(SInt, sortOf(f.Type()))
			}
			typeReach(f.Type(), out, seen, depth+1)
		}
	case *types.Slice:
		out[elemKey(sortOf(u.Elem()))] = ArraySort(SInt, ArraySort(SInt, sortOf(u.Elem())))
		typeReach(u.Elem(), out, seen, depth+1)
	case *types.Array:
		out[elemKey(sortOf(u.Elem()))] = ArraySort(SInt, ArraySort(SInt, sortOf(u.Elem())))
		typeReach(u.Elem(), out, seen, depth+1)
	case *types.Map:
		mapModKeys(u, out)
		typeReach(u.Elem(), out, seen, depth+1)
	}
}

func (e *Engine) directMods(fn *ssa.Function) *modInfo {
	if mi, ok := e.direct[fn]; ok {
		return mi
	}
	mi := &modInfo{keys: map[string]Sort{}}
	e.direct[fn] = mi
	for _, b := range fn.Blocks {
		for _, in := range b.Instrs {
			e.instrMods(in, mi)
		}
	}
	for _, an := range fn.AnonFuncs {
		// closures created here may be called later by anyone holding them; calls through values are "any" at the call site
		_ = an
	}
	return mi
}

// closureMods: transitive mod-set of a function with a body.
func (e *Engine) closureMods(fn *ssa.Function) *modInfo {
	if mi, ok := e.closure[fn]; ok {
		return mi
	}
	out := &modInfo{keys: map[string]Sort{}}
	seen := map[*ssa.Function]bool{}
	var visit func(f *ssa.Function)
	visit = func(f *ssa.Function) {
		if seen[f] {
			return
		}
		seen[f] = true
		if ct := e.contractFor(f); ct != nil && f != fn {
			if ct.Flags["pure"] || ct.Flags["noeffect"] || ct.Flags["deterministic"] || (ct.HasMod && len(ct.Modifies) == 0) {
				return
			}
			if ct.Flags["trusted"] && ct.HasMod {
				// explicit modifies on a trusted spec: 'any' or type-reach of args
				for _, m := range ct.ModSrc {
					if m == "any" {
						out.any = true
					}
				}
				if !out.any {
					for _, p := range f.Params {
						typeReach(p.Type(), out.keys, map[string]bool{}, 0)
					}
				}
				return
			}
		}
		if len(f.Blocks) == 0 || !e.inModule(f) {
			// external: writes only what is type-reachable from its (non-interface) parameters
			if isIntrinsicPure(f.String()) {
				return
			}
			for _, p := range f.Params {
				typeReach(p.Type(), out.keys, map[string]bool{}, 0)
			}
			return
		}
		d := e.directMods(f)
		if d.any {
			out.any = true
		}
		for k, s := range d.keys {
			out.keys[k] = s
		}
		for _, c := range d.callees {
			visit(c)
		}
	}
	visit(fn)
	e.closure[fn] = out
	return out
}

func (e *Engine) calleeModSet(fn *ssa.Function, sig *types.Signature, dynamic bool) (map[string]Sort, bool) {
	if fn == nil {
		if dynamic {
			return nil, true
		}
		keys := map[string]Sort{}
		for i := 0; i < sig.Params().Len(); i++ {
			typeReach(sig.Params().At(i).Type(), keys, map[string]bool{}, 0)
		}
		return keys, false
	}
	mi := e.closureMods(fn)
	return mi.keys, mi.any
}

func (e *Engine) loopModSet(fn *ssa.Function, body map[int]bool) (map[string]Sort, bool) {
	mi := &modInfo{keys: map[string]Sort{}}
	for bi := range body {
		for _, in := range fn.Blocks[bi].Instrs {
			e.instrMods(in, mi)
		}
	}
	for k, s := range mi.own {
		mi.keys[k] = s
	}
	for _, c := range mi.callees {
		cm := e.closureMods(c)
		if cm.any {
			mi.any = true
		}
		for k, s := range cm.keys {
			if strings.HasPrefix(k, "Local.") && !e.ownsLocal(fn, k) {
				continue
			}
			mi.keys[k] = s
		}
	}
	return mi.keys, mi.any
}

// ---- function lookup

func (e *Engine) findFunction(pkgPath, rel string) *ssa.Function {
	p := e.spkgs[pkgPath]
	if p == nil {
		return nil
	}
	var found *ssa.Function
	var visit func(f *ssa.Function)
	visit = func(f *ssa.Function) {
		if f.RelString(p.Pkg) == rel {
			found = f
		}
		for _, a := range f.AnonFuncs {
			visit(a)
		}
	}
	for _, m := range p.Members {
		switch x := m.(type) {
		case *ssa.Function:
			visit(x)
		case *ssa.Type:
			for _, t := range []types.Type{x.Type(), types.NewPointer(x.Type())} {
				ms := e.prog.MethodSets.MethodSet(t)
				for i := 0; i < ms.Len(); i++ {
					if f := e.prog.MethodValue(ms.At(i)); f != nil && f.Pkg == p {
						visit(f)
					}
				}
			}
		}
	}
	return found
}

func (e *Engine) allFunctions(pkgPath string) []*ssa.Function {
	p := e.spkgs[pkgPath]
	if p == nil {
		return nil
	}
	seen := map[*ssa.Function]bool{}
	var out []*ssa.Function
	var visit func(f *ssa.Function)
	visit = func(f *ssa.Function) {
		if f == nil || seen[f] || f.Synthetic != "" {
			return
		}
		seen[f] = true
		out = append(out, f)
		for _, a := range f.AnonFuncs {
			visit(a)
		}
	}
	for _, m := range p.Members {
		switch x := m.(type) {
		case *ssa.Function:
			visit(x)
		case *ssa.Type:
			for _, t := range []types.Type{x.Type(), types.NewPointer(x.Type())} {
				ms := e.prog.MethodSets.MethodSet(t)
				for i := 0; i < ms.Len(); i++ {
					if f := e.prog.MethodValue(ms.At(i)); f != nil && f.Pkg == p {
						visit(f)
					}
				}
			}
		}
	}
	sort.Slice(out, func(i, j int) bool { return out[i].String() < out[j].String() })
	return out
}


// ---- frame-local variables
// A local whose address is taken only to be captured by closures that are themselves only deferred or called
// directly never escapes the activation: it gets its own heap key (Local.*) that opaque calls cannot write.

func closureStaysLocal(mc *ssa.MakeClosure) bool {
	for _, r := range *mc.Referrers() {
		switch x := r.(type) {
		case *ssa.DebugRef:
		case *ssa.Defer:
			if x.Call.Value != mc {
				return false
			}
		case *ssa.Call:
			if x.Call.Value != mc {
				return false
			}
		default:
			return false
		}
	}
	return true
}

func (e *Engine) localKey(a *ssa.Alloc) (string, bool) {
	if k, ok := e.localKeys[a]; ok {
		return k, k != ""
	}
	if e.localKeys == nil {
		e.localKeys = map[*ssa.Alloc]string{}
	}
	e.localKeys[a] = ""
	elem := a.Type().(*types.Pointer).Elem()
	if isArray(elem) || a.Referrers() == nil {
		return "", false
	}
	for _, r := range *a.Referrers() {
		switch x := r.(type) {
		case *ssa.DebugRef:
		case *ssa.UnOp:
		case *ssa.Store:
			if x.Val == a {
				return "", false
			}
		case *ssa.MakeClosure:
			if isStruct(elem) || !closureStaysLocal(x) {
				return "", false
			}
		case *ssa.FieldAddr:
			if !isStruct(elem) || !fieldAddrStaysLocal(x) {
				return "", false
			}
		default:
			return "", false
		}
	}
	idx := 0
	for _, b := range a.Parent().Blocks {
		for _, in := range b.Instrs {
			if al, ok := in.(*ssa.Alloc); ok {
				if al == a {
					goto done
				}
				idx++
			}
		}
	}
done:
	k := fmt.Sprintf("Local.%s.%s.%d", e.shortName(a.Parent()), a.Comment, idx)
	e.localKeys[a] = k
	if e.localOwner == nil {
		e.localOwner = map[string]*ssa.Function{}
	}
	e.localOwner[k] = a.Parent()
	return k, true
}

// freeVarLocalKey resolves a closure's free variable to the local key of the variable it captures, if any.
func (e *Engine) freeVarLocalKey(fv *ssa.FreeVar) (string, bool) {
	fn := fv.Parent()
	parent := fn.Parent()
	if parent == nil {
		return "", false
	}
	idx := -1
	for i, f := range fn.FreeVars {
		if f == fv {
			idx = i
		}
	}
	for _, b := range parent.Blocks {
		for _, in := range b.Instrs {
			if mc, ok := in.(*ssa.MakeClosure); ok && mc.Fn == fn && idx >= 0 && idx < len(mc.Bindings) {
				switch bv := mc.Bindings[idx].(type) {
				case *ssa.Alloc:
					return e.localKey(bv)
				case *ssa.FreeVar:
					return e.freeVarLocalKey(bv)
				}
			}
		}
	}
	return "", false
}


// structFieldKeys collects the heap keys of all scalar fields of a struct type, including nested struct fields.
func structFieldKeys(t types.Type, out map[string]Sort, depth int) {
	if depth > 4 {
		return
	}
	for _, f := range structFields(t) {
		if isStruct(f.Type()) {
			structFieldKeys(f.Type(), out, depth+1)
		} else if !isArray(f.Type()) {
			out[fieldKey(t, f.Name())] = ArraySort(SInt, sortOf(f.Type()))
		}
	}
}


// fieldAddrStaysLocal: the address of a field of a local struct variable is only used to load, store, or take
// the address of a nested field — it is never stored, passed or captured.
func fieldAddrStaysLocal(fa *ssa.FieldAddr) bool {
	if fa.Referrers() == nil {
		return false
	}
	for _, r := range *fa.Referrers() {
		switch x := r.(type) {
		case *ssa.DebugRef:
		case *ssa.UnOp:
			if x.Op != token.MUL {
				return false
			}
		case *ssa.Store:
			if x.Val == fa {
				return false
			}
		case *ssa.FieldAddr:
			if !fieldAddrStaysLocal(x) {
				return false
			}
		default:
			return false
		}
	}
	return true
}

// localFieldKeys lists the per-field keys of a local struct variable (scalar leaves only).
func (e *Engine) localFieldKeys(base string, t types.Type, out map[string]Sort, depth int) {
	if depth > 4 {
		return
	}
	for _, f := range structFields(t) {
		k := base + "." + f.Name()
		if isStruct(f.Type()) {
			e.localFieldKeys(k, f.Type(), out, depth+1)
		} else if !isArray(f.Type()) {
			out[k] = ArraySort(SInt, sortOf(f.Type()))
			e.localOwner[k] = e.localOwner[rootLocalKey(e, k)]
		}
	}
}

func rootLocalKey(e *Engine, k string) string {
	for x := k; x != ""; {
		if _, ok := e.localOwner[x]; ok {
			return x
		}
		i := strings.LastIndex(x, ".")
		if i < 0 {
			break
		}
		x = x[:i]
	}
	return k
}

// localFieldAddrKey resolves &local.f.g... to its local key, if the root is a frame-local struct variable.
func (e *Engine) localFieldAddrKey(fa *ssa.FieldAddr) (string, types.Type, bool) {
	stT := fa.X.Type().Underlying().(*types.Pointer).Elem()
	f := stT.Underlying().(*types.Struct).Field(fa.Field)
	switch x := fa.X.(type) {
	case *ssa.Alloc:
		if base, ok := e.localKey(x); ok && isStruct(stT) {
			return base + "." + f.Name(), f.Type(), true
		}
	case *ssa.FieldAddr:
		if base, _, ok := e.localFieldAddrKey(x); ok {
			return base + "." + f.Name(), f.Type(), true
		}
	}
	return "", nil, false
}
