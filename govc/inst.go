package main

import (
	"fmt"
	"strings"
)

// ---- skolemise-and-instantiate
//
// A goal of the form  forall q. B(q)  is proved as  B(sk)  for a fresh constant sk (equisatisfiable after negation),
// and every universally quantified fact that holds on the path — loop invariants assumed at a header, callee
// postconditions, preconditions, append/copy axioms — is additionally instantiated at sk. The solvers find such
// instances themselves only when the trigger term occurs syntactically, which it does not when the heap of the goal
// is a store-chain over the heap of the assumption; the explicit instance is what lets `rows-kept`-style invariants
// go through in milliseconds instead of timing out. Everything here is at the level of SMT-LIB text: bound variables
// have globally unique names (|q!name!N|), so substitution is plain string replacement.

type qInst struct {
	guard string // the fact holds under this path condition ("" = always)
	bv    string // bound variable symbol, e.g. |q!i!40|
	sort  string
	more  [][2]string // further bound variables (symbol, sort) of a multi-variable quantifier
	body  string
	line  int // for global facts: index in ctx.lines (must precede the obligation's prefix); -1 for path facts
}

// topArgs splits "(op a b c)" into op and its top-level arguments; ok=false if s is not an application.
func topArgs(s string) (op string, args []string, ok bool) {
	if len(s) < 2 || s[0] != '(' || s[len(s)-1] != ')' {
		return "", nil, false
	}
	in := s[1 : len(s)-1]
	depth := 0
	start := -1
	var toks []string
	i := 0
	for i < len(in) {
		c := in[i]
		switch {
		case c == '|':
			if depth == 0 && start < 0 {
				start = i
			}
			j := strings.IndexByte(in[i+1:], '|')
			if j < 0 {
				return "", nil, false
			}
			i += j + 2
			continue
		case c == '"':
			if depth == 0 && start < 0 {
				start = i
			}
			j := i + 1
			for j < len(in) {
				if in[j] == '"' {
					if j+1 < len(in) && in[j+1] == '"' {
						j += 2
						continue
					}
					break
				}
				j++
			}
			i = j + 1
			continue
		case c == '(':
			if depth == 0 && start < 0 {
				start = i
			}
			depth++
		case c == ')':
			depth--
			if depth < 0 {
				return "", nil, false
			}
		case c == ' ' || c == '\n' || c == '\t':
			if depth == 0 && start >= 0 {
				toks = append(toks, in[start:i])
				start = -1
			}
		default:
			if depth == 0 && start < 0 {
				start = i
			}
		}
		i++
	}
	if start >= 0 {
		toks = append(toks, in[start:])
	}
	if len(toks) == 0 {
		return "", nil, false
	}
	return toks[0], toks[1:], true
}

// parseForall recognises "(forall ((|q!x!N| Sort)) BODY)" with exactly one bound variable.
func parseForall(s string) (bv, sort, body string, ok bool) {
	vs, body, ok := parseForallN(s)
	if !ok || len(vs) != 1 {
		return "", "", "", false
	}
	return vs[0][0], vs[0][1], body, true
}

// parseForallN recognises "(forall ((|q!x| S) (|q!y| T) ...) BODY)".
func parseForallN(s string) (vars [][2]string, body string, ok bool) {
	op, args, ok1 := topArgs(s)
	if !ok1 || op != "forall" || len(args) != 2 {
		return nil, "", false
	}
	first, rest, ok2 := topArgs(args[0])
	if !ok2 {
		return nil, "", false
	}
	for _, b := range append([]string{first}, rest...) {
		v, vs, ok3 := topArgs(b)
		if !ok3 || len(vs) != 1 || !strings.HasPrefix(v, "|q!") {
			return nil, "", false
		}
		vars = append(vars, [2]string{v, vs[0]})
	}
	return vars, args[1], true
}

// skolemise replaces the positive top-level universal quantifiers of goal g by fresh constants.
func (fx *FnExec) skolemise(g string, sks *[][2]string) string {
	if !strings.Contains(g, "(forall ") {
		return g
	}
	if bv, sort, body, ok := parseForall(g); ok {
		fx.ctx.nfresh++
		sk := smtIdent(fmt.Sprintf("sk!%d", fx.ctx.nfresh))
		fx.ctx.lines = append(fx.ctx.lines, fmt.Sprintf("(declare-const %s %s)", sk, sort))
		*sks = append(*sks, [2]string{sk, sort})
		return fx.skolemise(strings.ReplaceAll(body, bv, sk), sks)
	}
	op, args, ok := topArgs(g)
	if !ok {
		return g
	}
	switch op {
	case "and":
		for i := range args {
			args[i] = fx.skolemise(args[i], sks)
		}
		return "(and " + strings.Join(args, " ") + ")"
	case "=>":
		if len(args) == 2 {
			return "(=> " + args[0] + " " + fx.skolemise(args[1], sks) + ")"
		}
	}
	return g
}

// noteQuantified records the universally quantified top-level conjuncts of a fact that now holds under `guard`.
func (fx *FnExec) noteQuantified(st *State, guard string, fact string) {
	if !strings.Contains(fact, "(forall ") {
		return
	}
	if bv, sort, body, ok := parseForall(fact); ok {
		st.qinst = append(st.qinst, qInst{guard: guard, bv: bv, sort: sort, body: body, line: -1})
		return
	}
	op, args, ok := topArgs(fact)
	if !ok {
		return
	}
	switch op {
	case "and":
		for _, a := range args {
			fx.noteQuantified(st, guard, a)
		}
	case "=>":
		if len(args) == 2 && strings.Contains(args[1], "(forall ") {
			g := args[0]
			if guard != "" {
				g = "(and " + guard + " " + args[0] + ")"
			}
			fx.noteQuantified(st, g, args[1])
		}
	}
}

// instances: the recorded universal facts instantiated at the given skolem constants.
func (fx *FnExec) instances(st *State, sks [][2]string, prefix int) []string {
	var out []string
	seen := map[string]bool{}
	add := func(q qInst) {
		vars := append([][2]string{{q.bv, q.sort}}, q.more...)
		var rec func(i int, body string)
		rec = func(i int, body string) {
			if len(out) > 400 {
				return
			}
			if i == len(vars) {
				inst := body
				if q.guard != "" {
					inst = "(=> " + q.guard + " " + inst + ")"
				}
				if !seen[inst] {
					seen[inst] = true
					out = append(out, inst)
				}
				return
			}
			for _, sk := range sks {
				if sk[1] == vars[i][1] {
					rec(i+1, strings.ReplaceAll(body, vars[i][0], sk[0]))
				}
			}
		}
		rec(0, q.body)
	}
	for _, q := range st.qinst {
		add(q)
	}
	for _, q := range fx.ctx.globalQ {
		if q.line < prefix {
			add(q)
		}
	}
	return out
}
