package main

import (
	"fmt"
	"go/ast"
	"go/parser"
	"os"
	"path/filepath"
	"regexp"
	"strconv"
	"strings"
)

// Clause is one labelled contract expression.
type Clause struct {
	Label string
	Expr  ast.Expr
	Src   string
	When  ast.Expr // optional guard for call-site anchored asserts
}

type LoopSpec struct {
	Inv  []Clause
	Step []Clause // relation between the state at the loop head (hdr(..)) and at the back edge; proved, never assumed
	Dec  *Clause
}

// MarkSpec: `mark @after:<callee-glob>#<n> <label>` snapshots the state right after the n-th matching call.
type MarkSpec struct {
	Glob  string
	N     int
	Label string
	Wild  bool // inherited from a wildcard contract: need not match anything in this particular function
}

type AnchorAssert struct {
	Anchor string // "call:<callee-substring>#n" or "store:<field>#n"
	Clause Clause
	Wild   bool // inherited from a wildcard contract: need not match anything in this particular function
}

type FuncContract struct {
	Name      string // package-relative function name, e.g. (*stack).Pop  or fully-qualified for specs
	PkgPath   string // package the contract file belongs to ("" for /verif/specs)
	File      string
	Requires  []Clause
	Ensures   []Clause
	Loops     map[int]*LoopSpec
	HasMod    bool
	Modifies  []ast.Expr
	ModSrc    []string
	Decreases *Clause
	Flags     map[string]bool // pure, trusted, wrap64, maypanic, noinline, opaque, frame
	Asserts   []AnchorAssert
	FnSpecs   map[string]*FuncContract // param name -> contract of function-typed param
	Structure []string                 // structural obligations: "recover-first", "defers <callee> after <callee>"
	GhostClrs []MarkSpec               // `ghostclear @<anchor> name`
	GhostSets []MarkSpec               // `ghostset @call:<glob> name`: ghost flag name becomes true after a matching call
	Marks     []MarkSpec               // named program points (state snapshots) usable as at("label", e)
	ErrProp   []string                 // callee substrings whose error must propagate
	ErrPropNil bool                    // ... and the other results must be nil on that path (errprop-nil)
	Props     []string
	Results   []string // optional explicit result names
	Params    []string // for trusted specs of external funcs: parameter names
	Line      int
	mergedWild bool
}

type SpecParam struct {
	Name string
	Type string // int bool string ref slice iface, or "[]int" etc.
}

type SpecFunc struct {
	Name      string
	Params    []SpecParam
	Result    string
	Body      ast.Expr
	Src       string
	Recursive bool
	PkgPath   string
}

type ContractSet struct {
	Funcs map[string]*FuncContract // key: pkgpath + "::" + name   (or "::"+fullname for specs)
	Specs map[string]*SpecFunc     // key: name (global namespace; pkg specs may shadow by pkgpath+"::"+name)
	Wild  []*FuncContract          // contracts whose name contains the wildcard '%'
	Lemmas []*SpecFunc             // spec-level lemmas (Body must be valid for all parameter values)
	UFuns  map[string]*SpecFunc    // uninterpreted spec functions / predicates
	Files []string
}

func NewContractSet() *ContractSet {
	return &ContractSet{Funcs: map[string]*FuncContract{}, Specs: map[string]*SpecFunc{}, UFuns: map[string]*SpecFunc{}}
}

var labelRe = regexp.MustCompile(`^\[([A-Za-z0-9_.\-]+)\]\s*`)

// preprocessExpr rewrites contract-only syntax (a ==> b, at any nesting depth) into parseable Go.
func preprocessExpr(s string) string {
	s = strings.TrimSpace(s)
	if !strings.Contains(s, "==>") {
		return s
	}
	if i := topLevelIndex(s, "==>"); i >= 0 {
		return "implies(" + preprocessExpr(s[:i]) + ", " + preprocessExpr(s[i+3:]) + ")"
	}
	// rewrite inside each top-level bracket group
	var out strings.Builder
	depth := 0
	start := -1
	for i := 0; i < len(s); i++ {
		c := s[i]
		switch c {
		case '(', '[':
			if depth == 0 {
				out.WriteByte(c)
				start = i + 1
			}
			depth++
		case ')', ']':
			depth--
			if depth == 0 {
				inner := s[start:i]
				parts := splitTopLevel(inner, ',')
				for j, p := range parts {
					if j > 0 {
						out.WriteString(", ")
					}
					out.WriteString(preprocessExpr(p))
				}
				out.WriteByte(c)
			}
		default:
			if depth == 0 {
				out.WriteByte(c)
			}
		}
	}
	return out.String()
}

func topLevelIndex(s, op string) int {
	depth := 0
	inStr := byte(0)
	for i := 0; i < len(s); i++ {
		c := s[i]
		if inStr != 0 {
			if c == '\\' {
				i++
			} else if c == inStr {
				inStr = 0
			}
			continue
		}
		switch c {
		case '"', '\'', '`':
			inStr = c
		case '(', '[', '{':
			depth++
		case ')', ']', '}':
			depth--
		}
		if depth == 0 && strings.HasPrefix(s[i:], op) {
			return i
		}
	}
	return -1
}

func parseClauseExpr(src string) (ast.Expr, error) {
	e, err := parser.ParseExpr(preprocessExpr(src))
	if err != nil {
		return nil, fmt.Errorf("cannot parse %q: %v", src, err)
	}
	return e, nil
}

func mkClause(rest string) (Clause, error) {
	rest = strings.TrimSpace(rest)
	label := ""
	if m := labelRe.FindStringSubmatch(rest); m != nil {
		label = m[1]
		rest = rest[len(m[0]):]
	}
	e, err := parseClauseExpr(rest)
	if err != nil {
		return Clause{}, err
	}
	return Clause{Label: label, Expr: e, Src: rest}, nil
}

// LoadContractFile parses a contract file. In /repo files every directive line starts with "//@";
// in /verif/specs files lines are taken as they are ('#' comments allowed).
func (cs *ContractSet) LoadContractFile(path, pkgPath string, repoStyle bool) error {
	data, err := os.ReadFile(path)
	if err != nil {
		return err
	}
	cs.Files = append(cs.Files, path)
	var lines []string
	var lineNos []int
	for i, ln := range strings.Split(string(data), "\n") {
		t := strings.TrimSpace(ln)
		if repoStyle {
			if !strings.HasPrefix(t, "//@") {
				continue
			}
			t = strings.TrimSpace(t[3:])
		} else {
			if strings.HasPrefix(t, "#") {
				continue
			}
		}
		if t == "" {
			continue
		}
		// continuation
		if (strings.HasPrefix(t, "&&") || strings.HasPrefix(t, "||") || strings.HasPrefix(t, "..")) && len(lines) > 0 {
			if strings.HasPrefix(t, "..") {
				t = t[2:]
			}
			lines[len(lines)-1] += " " + t
			continue
		}
		lines = append(lines, t)
		lineNos = append(lineNos, i+1)
	}
	var cur *FuncContract
	var curFnSpec *FuncContract
	for i, t := range lines {
		fail := func(err error) error { return fmt.Errorf("%s:%d: %v", path, lineNos[i], err) }
		word, rest := splitWord(t)
		target := cur
		if curFnSpec != nil && word != "func" && word != "spec" && word != "fnspec" && word != "end" {
			target = curFnSpec
		}
		switch word {
		case "spec":
			sf, err := parseSpecFunc(rest)
			if err != nil {
				return fail(err)
			}
			sf.PkgPath = pkgPath
			cs.Specs[sf.Name] = sf
			cur, curFnSpec = nil, nil
		case "ufun":
			sf, err := parseSpecFunc(rest + " = true")
			if err != nil {
				return fail(err)
			}
			sf.PkgPath = pkgPath
			cs.UFuns[sf.Name] = sf
			cur, curFnSpec = nil, nil
		case "lemma":
			sf, err := parseSpecFunc(rest)
			if err != nil {
				return fail(err)
			}
			sf.PkgPath = pkgPath
			cs.Lemmas = append(cs.Lemmas, sf)
			cur, curFnSpec = nil, nil
		case "func":
			name := strings.TrimSpace(rest)
			var params []string
			if j := strings.Index(name, " params "); j >= 0 {
				params = strings.Fields(strings.ReplaceAll(name[j+8:], ",", " "))
				name = strings.TrimSpace(name[:j])
			}
			cur = &FuncContract{Name: name, PkgPath: pkgPath, File: path, Loops: map[int]*LoopSpec{},
				Flags: map[string]bool{}, FnSpecs: map[string]*FuncContract{}, Line: lineNos[i], Params: params}
			curFnSpec = nil
			key := pkgPath + "::" + name
			if strings.Contains(name, "/") {
				key = "::" + name // fully-qualified (external) function, scoped to this file's package for name resolution
			}
			if _, dup := cs.Funcs[key]; dup {
				return fail(fmt.Errorf("duplicate contract for %s", name))
			}
			if strings.Contains(name, "%") {
				cs.Wild = append(cs.Wild, cur)
			} else {
				cs.Funcs[key] = cur
			}
		case "fnspec":
			if cur == nil {
				return fail(fmt.Errorf("fnspec outside func"))
			}
			pname := strings.TrimSpace(rest)
			var params []string
			if j := strings.Index(pname, " params "); j >= 0 {
				params = strings.Fields(strings.ReplaceAll(pname[j+8:], ",", " "))
				pname = strings.TrimSpace(pname[:j])
			}
			curFnSpec = &FuncContract{Name: cur.Name + "/" + pname, PkgPath: pkgPath, File: path, Loops: map[int]*LoopSpec{},
				Flags: map[string]bool{}, FnSpecs: map[string]*FuncContract{}, Params: params}
			cur.FnSpecs[pname] = curFnSpec
		case "end":
			curFnSpec = nil
		case "requires", "ensures":
			if target == nil {
				return fail(fmt.Errorf("%s outside func", word))
			}
			c, err := mkClause(rest)
			if err != nil {
				return fail(err)
			}
			if word == "requires" {
				target.Requires = append(target.Requires, c)
			} else {
				target.Ensures = append(target.Ensures, c)
			}
		case "loop":
			if cur == nil {
				return fail(fmt.Errorf("loop outside func"))
			}
			nstr, r2 := splitWord(rest)
			n, err := strconv.Atoi(strings.TrimSuffix(nstr, ":"))
			if err != nil {
				return fail(fmt.Errorf("bad loop ordinal %q", nstr))
			}
			kind, r3 := splitWord(r2)
			ls := cur.Loops[n]
			if ls == nil {
				ls = &LoopSpec{}
				cur.Loops[n] = ls
			}
			switch {
			case strings.HasPrefix(kind, "invariant"):
				c, err := mkClause(strings.TrimPrefix(kind, "invariant") + " " + r3)
				if err != nil {
					return fail(err)
				}
				ls.Inv = append(ls.Inv, c)
			case strings.HasPrefix(kind, "step"):
				c, err := mkClause(strings.TrimPrefix(kind, "step") + " " + r3)
				if err != nil {
					return fail(err)
				}
				ls.Step = append(ls.Step, c)
			case kind == "decreases":
				c, err := mkClause(r3)
				if err != nil {
					return fail(err)
				}
				ls.Dec = &c
			default:
				return fail(fmt.Errorf("unknown loop clause %q", kind))
			}
		case "modifies":
			if target == nil {
				return fail(fmt.Errorf("modifies outside func"))
			}
			target.HasMod = true
			r := strings.TrimSpace(rest)
			if r != "" && r != "nothing" {
				for _, part := range splitTopLevel(r, ',') {
					e, err := parseClauseExpr(part)
					if err != nil {
						return fail(err)
					}
					target.Modifies = append(target.Modifies, e)
					target.ModSrc = append(target.ModSrc, strings.TrimSpace(part))
				}
			}
		case "decreases":
			if target == nil {
				return fail(fmt.Errorf("decreases outside func"))
			}
			c, err := mkClause(rest)
			if err != nil {
				return fail(err)
			}
			target.Decreases = &c
		case "assert":
			if cur == nil {
				return fail(fmt.Errorf("assert outside func"))
			}
			anchor, r2 := splitWord(rest)
			if !strings.HasPrefix(anchor, "@") {
				return fail(fmt.Errorf("assert needs @anchor"))
			}
			c, err := mkClause(r2)
			if err != nil {
				return fail(err)
			}
			cur.Asserts = append(cur.Asserts, AnchorAssert{Anchor: anchor[1:], Clause: c})
		case "ghostset", "ghostclear":
			if cur == nil {
				return fail(fmt.Errorf("%s outside func", word))
			}
			anchor, label := splitWord(rest)
			if !strings.HasPrefix(anchor, "@") || label == "" {
				return fail(fmt.Errorf("%s @<call|mapupdate|lookup>:<glob> <name>", word))
			}
			a := strings.TrimPrefix(anchor, "@")
			if !strings.Contains(a, ":") {
				return fail(fmt.Errorf("anchor needs a kind prefix (call:, mapupdate:, lookup:)"))
			}
			if word == "ghostset" {
				cur.GhostSets = append(cur.GhostSets, MarkSpec{Glob: a, Label: label})
			} else {
				cur.GhostClrs = append(cur.GhostClrs, MarkSpec{Glob: a, Label: label})
			}
		case "structure":
			if cur == nil {
				return fail(fmt.Errorf("structure outside func"))
			}
			cur.Structure = append(cur.Structure, strings.TrimSpace(rest))
		case "mark":
			if cur == nil {
				return fail(fmt.Errorf("mark outside func"))
			}
			anchor, label := splitWord(rest)
			if !strings.HasPrefix(anchor, "@after:") || label == "" {
				return fail(fmt.Errorf("mark @after:<callee>#<n> <label>"))
			}
			g := strings.TrimPrefix(anchor, "@after:")
			n := 1
			if i := strings.LastIndex(g, "#"); i >= 0 {
				if v, err := strconv.Atoi(g[i+1:]); err == nil {
					n = v
					g = g[:i]
				}
			}
			cur.Marks = append(cur.Marks, MarkSpec{Glob: g, N: n, Label: label})
		case "errprop", "errprop-nil":
			if cur == nil {
				return fail(fmt.Errorf("errprop outside func"))
			}
			cur.ErrProp = append(cur.ErrProp, strings.Fields(rest)...)
			if word == "errprop-nil" {
				cur.ErrPropNil = true
			}
		case "props":
			if cur == nil {
				return fail(fmt.Errorf("props outside func"))
			}
			cur.Props = append(cur.Props, strings.Fields(strings.ReplaceAll(rest, ",", " "))...)
		case "results":
			if target == nil {
				return fail(fmt.Errorf("results outside func"))
			}
			target.Results = strings.Fields(strings.ReplaceAll(rest, ",", " "))
		case "pure", "trusted", "maypanic", "noinline", "opaque", "frame", "nopanic", "readsheap", "nonnil", "fresh", "noeffect", "nilsafe", "inline", "deterministic", "reveal", "perwrite":
			if target == nil {
				return fail(fmt.Errorf("%s outside func", word))
			}
			target.Flags[word] = true
		case "arith":
			if target == nil {
				return fail(fmt.Errorf("arith outside func"))
			}
			target.Flags[strings.TrimSpace(rest)] = true
		default:
			return fail(fmt.Errorf("unknown directive %q", word))
		}
	}
	return nil
}

func splitWord(s string) (string, string) {
	s = strings.TrimSpace(s)
	i := strings.IndexAny(s, " \t")
	if i < 0 {
		return s, ""
	}
	return s[:i], strings.TrimSpace(s[i+1:])
}

func splitTopLevel(s string, sep byte) []string {
	var out []string
	depth := 0
	last := 0
	for i := 0; i < len(s); i++ {
		switch s[i] {
		case '(', '[', '{':
			depth++
		case ')', ']', '}':
			depth--
		default:
			if s[i] == sep && depth == 0 {
				out = append(out, s[last:i])
				last = i + 1
			}
		}
	}
	out = append(out, s[last:])
	return out
}

// spec name(a int, b string) int = expr
func parseSpecFunc(s string) (*SpecFunc, error) {
	eq := topLevelIndex(s, " = ")
	if eq < 0 {
		return nil, fmt.Errorf("spec needs ' = '")
	}
	head, body := strings.TrimSpace(s[:eq]), strings.TrimSpace(s[eq+3:])
	lp := strings.Index(head, "(")
	rp := strings.LastIndex(head, ")")
	if lp < 0 || rp < lp {
		return nil, fmt.Errorf("bad spec head %q", head)
	}
	sf := &SpecFunc{Name: strings.TrimSpace(head[:lp]), Result: strings.TrimSpace(head[rp+1:]), Src: body}
	ps := strings.TrimSpace(head[lp+1 : rp])
	if ps != "" {
		var pending []string
		for _, p := range strings.Split(ps, ",") {
			f := strings.Fields(p)
			switch len(f) {
			case 1:
				pending = append(pending, f[0])
			case 2:
				for _, n := range pending {
					sf.Params = append(sf.Params, SpecParam{n, f[1]})
				}
				pending = nil
				sf.Params = append(sf.Params, SpecParam{f[0], f[1]})
			default:
				return nil, fmt.Errorf("bad spec param %q", p)
			}
		}
		if len(pending) > 0 {
			return nil, fmt.Errorf("spec params without type: %v", pending)
		}
	}
	e, err := parseClauseExpr(body)
	if err != nil {
		return nil, err
	}
	sf.Body = e
	ast.Inspect(e, func(n ast.Node) bool {
		if c, ok := n.(*ast.CallExpr); ok {
			if id, ok := c.Fun.(*ast.Ident); ok && id.Name == sf.Name {
				sf.Recursive = true
			}
		}
		return true
	})
	return sf, nil
}

// LoadAll loads /verif/specs/*.spec and every zz_verif_contracts.go under repo/pkg and repo/cmd.
func LoadAllContracts(repo, specDir, modPath string) (*ContractSet, error) {
	cs := NewContractSet()
	specs, _ := filepath.Glob(filepath.Join(specDir, "*.spec"))
	for _, f := range specs {
		if err := cs.LoadContractFile(f, "", false); err != nil {
			return nil, err
		}
	}
	err := filepath.Walk(repo, func(p string, info os.FileInfo, err error) error {
		if err != nil {
			return nil
		}
		if info.IsDir() && (info.Name() == ".git" || info.Name() == "node_modules") {
			return filepath.SkipDir
		}
		if !info.IsDir() && info.Name() == "zz_verif_contracts.go" {
			rel, _ := filepath.Rel(repo, filepath.Dir(p))
			pkgPath := modPath + "/" + filepath.ToSlash(rel)
			if err := cs.LoadContractFile(p, pkgPath, true); err != nil {
				return err
			}
		}
		return nil
	})
	return cs, err
}
