package main

import (
	"fmt"
	"sync"
	"go/types"
	"sort"
	"strings"
)

// Sort is an SMT sort name.
type Sort string

const (
	SInt    Sort = "Int"
	SBool   Sort = "Bool"
	SString Sort = "String"
	SSlice  Sort = "Slice"
	SIface  Sort = "Iface"
	SReal   Sort = "Real"
)

// Term is an SMT-LIB term with its sort.
type Term struct {
	S    string
	Sort Sort
}

func (t Term) String() string { return t.S }

func mk(sort Sort, f string, args ...interface{}) Term {
	return Term{S: fmt.Sprintf(f, args...), Sort: sort}
}

func Int(n int64) Term {
	if n < 0 {
		return Term{fmt.Sprintf("(- %d)", -n), SInt}
	}
	return Term{fmt.Sprintf("%d", n), SInt}
}

var (
	True  = Term{"true", SBool}
	False = Term{"false", SBool}
	Nil   = Term{"0", SInt}
)

func And(ts ...Term) Term {
	var xs []string
	for _, t := range ts {
		if t.S == "true" {
			continue
		}
		if t.S == "false" {
			return False
		}
		xs = append(xs, t.S)
	}
	switch len(xs) {
	case 0:
		return True
	case 1:
		return Term{xs[0], SBool}
	}
	return Term{"(and " + strings.Join(xs, " ") + ")", SBool}
}

func Or(ts ...Term) Term {
	var xs []string
	for _, t := range ts {
		if t.S == "false" {
			continue
		}
		if t.S == "true" {
			return True
		}
		xs = append(xs, t.S)
	}
	switch len(xs) {
	case 0:
		return False
	case 1:
		return Term{xs[0], SBool}
	}
	return Term{"(or " + strings.Join(xs, " ") + ")", SBool}
}

func Not(t Term) Term {
	switch t.S {
	case "true":
		return False
	case "false":
		return True
	}
	if strings.HasPrefix(t.S, "(not ") {
		return Term{t.S[5 : len(t.S)-1], SBool}
	}
	return Term{"(not " + t.S + ")", SBool}
}

func Implies(a, b Term) Term {
	if a.S == "true" {
		return b
	}
	if a.S == "false" || b.S == "true" {
		return True
	}
	return Term{"(=> " + a.S + " " + b.S + ")", SBool}
}

func Eq(a, b Term) Term {
	if a.S == b.S {
		return True
	}
	return Term{"(= " + a.S + " " + b.S + ")", SBool}
}

func Ite(c, a, b Term) Term {
	if c.S == "true" {
		return a
	}
	if c.S == "false" {
		return b
	}
	if a.S == b.S {
		return a
	}
	return Term{"(ite " + c.S + " " + a.S + " " + b.S + ")", a.Sort}
}

func Add(a, b Term) Term { return Term{"(+ " + a.S + " " + b.S + ")", a.Sort} }
func Sub(a, b Term) Term { return Term{"(- " + a.S + " " + b.S + ")", a.Sort} }
func Lt(a, b Term) Term  { return Term{"(< " + a.S + " " + b.S + ")", SBool} }
func Le(a, b Term) Term  { return Term{"(<= " + a.S + " " + b.S + ")", SBool} }
func Gt(a, b Term) Term  { return Term{"(> " + a.S + " " + b.S + ")", SBool} }
func Ge(a, b Term) Term  { return Term{"(>= " + a.S + " " + b.S + ")", SBool} }

func Select(arr Term, idx Term, elem Sort) Term {
	return Term{"(select " + arr.S + " " + idx.S + ")", elem}
}
func Store(arr Term, idx Term, v Term) Term {
	return Term{"(store " + arr.S + " " + idx.S + " " + v.S + ")", arr.Sort}
}

func ArraySort(k, v Sort) Sort { return Sort("(Array " + string(k) + " " + string(v) + ")") }

// Slice accessors
func SlBase(s Term) Term { return Term{"(s-base " + s.S + ")", SInt} }
func SlOff(s Term) Term  { return Term{"(s-off " + s.S + ")", SInt} }
func SlLen(s Term) Term  { return Term{"(s-len " + s.S + ")", SInt} }
func SlCap(s Term) Term  { return Term{"(s-cap " + s.S + ")", SInt} }
func MkSlice(base, off, ln, cp Term) Term {
	return Term{"(mk-slice " + base.S + " " + off.S + " " + ln.S + " " + cp.S + ")", SSlice}
}

var NilSlice = Term{"(mk-slice 0 0 0 0)", SSlice}

func IfTag(s Term) Term { return Term{"(i-tag " + s.S + ")", SInt} }
func IfVal(s Term) Term { return Term{"(i-val " + s.S + ")", SInt} }
func MkIface(tag, val Term) Term {
	return Term{"(mk-iface " + tag.S + " " + val.S + ")", SIface}
}

var NilIface = Term{"(mk-iface 0 0)", SIface}

func StrLit(s string) Term {
	var b strings.Builder
	b.WriteByte('"')
	for _, r := range []byte(s) {
		switch {
		case r == '"':
			b.WriteString(`""`)
		case r < 32 || r > 126 || r == '\\':
			fmt.Fprintf(&b, `\u{%x}`, r)
		default:
			b.WriteByte(r)
		}
	}
	b.WriteByte('"')
	return Term{b.String(), SString}
}

// sortOf maps a Go type to an SMT sort.
func sortOf(t types.Type) Sort {
	switch u := t.Underlying().(type) {
	case *types.Basic:
		info := u.Info()
		switch {
		case info&types.IsBoolean != 0:
			return SBool
		case info&types.IsString != 0:
			return SString
		case info&types.IsFloat != 0:
			return SReal
		case info&types.IsComplex != 0:
			return SReal
		case u.Kind() == types.UnsafePointer:
			return SInt
		case u.Kind() == types.UntypedNil:
			return SInt
		}
		return SInt
	case *types.Slice:
		return SSlice
	case *types.Interface:
		return SIface
	case *types.TypeParam:
		return SIface
	}
	return SInt // pointers, maps, chans, funcs, structs (snapshot refs), arrays (base refs), tuples n/a
}

func zeroOf(t types.Type) Term {
	switch sortOf(t) {
	case SBool:
		return False
	case SString:
		return Term{`""`, SString}
	case SSlice:
		return NilSlice
	case SIface:
		return NilIface
	case SReal:
		return Term{"0.0", SReal}
	}
	return Nil
}

func isStruct(t types.Type) bool {
	_, ok := t.Underlying().(*types.Struct)
	return ok
}
func isArray(t types.Type) bool {
	_, ok := t.Underlying().(*types.Array)
	return ok
}
func isPointer(t types.Type) bool {
	_, ok := t.Underlying().(*types.Pointer)
	return ok
}
func isMap(t types.Type) bool {
	_, ok := t.Underlying().(*types.Map)
	return ok
}
func isInterface(t types.Type) bool {
	_, ok := t.Underlying().(*types.Interface)
	return ok
}
func isRefLike(t types.Type) bool {
	switch t.Underlying().(type) {
	case *types.Pointer, *types.Map, *types.Chan, *types.Signature:
		return true
	}
	return false
}

// smtIdent makes a legal quoted SMT symbol.
func smtIdent(s string) string {
	s = strings.ReplaceAll(s, "|", "!")
	s = strings.ReplaceAll(s, "\\", "!")
	return "|" + s + "|"
}

// typeKey is a short stable name for a Go type used in heap keys.
func typeKey(t types.Type) string {
	return types.TypeString(t, func(p *types.Package) string { return p.Name() })
}

// SMT context: an ordered list of declarations and facts. Obligations refer to a prefix.
type Ctx struct {
	lines  []string // declarations, definitions and asserted facts, in order
	nfresh int
	decl   map[string]bool
	quant  int // > 0 while a term under a quantifier is being built: nothing mentioning bound variables may be emitted
	qfacts [][]string // typing facts about terms under the binder, per open quantifier
	infos   []*lineInfo
	infoMu  sync.Mutex
	globalQ []qInst   // universally quantified facts asserted unconditionally (append / copy axioms, preservation)
}

func NewCtx() *Ctx { return &Ctx{decl: map[string]bool{}} }

func (c *Ctx) Fresh(prefix string, sort Sort) Term {
	if c.quant > 0 {
		panic("a fresh value (opaque call result / allocation) is needed under a quantifier")
	}
	c.nfresh++
	name := smtIdent(fmt.Sprintf("%s!%d", prefix, c.nfresh))
	c.lines = append(c.lines, fmt.Sprintf("(declare-const %s %s)", name, sort))
	return Term{name, sort}
}

// Declare a named constant once.
func (c *Ctx) Const(name string, sort Sort) Term {
	id := smtIdent(name)
	if !c.decl[id] {
		c.decl[id] = true
		c.lines = append(c.lines, fmt.Sprintf("(declare-const %s %s)", id, sort))
	}
	return Term{id, sort}
}

// Define gives a name to a term (keeps formulas DAG-shaped).
func (c *Ctx) Define(prefix string, t Term) Term {
	if len(t.S) < 24 && !strings.Contains(t.S, " ") {
		return t
	}
	if c.quant > 0 {
		return t
	}
	c.nfresh++
	name := smtIdent(fmt.Sprintf("%s!%d", prefix, c.nfresh))
	c.lines = append(c.lines, fmt.Sprintf("(define-fun %s () %s %s)", name, t.Sort, t.S))
	return Term{name, t.Sort}
}

func (c *Ctx) DeclFun(name string, args []Sort, res Sort) string {
	id := smtIdent(name)
	if !c.decl[id] {
		c.decl[id] = true
		var as []string
		for _, a := range args {
			as = append(as, string(a))
		}
		c.lines = append(c.lines, fmt.Sprintf("(declare-fun %s (%s) %s)", id, strings.Join(as, " "), res))
	}
	return id
}

func (c *Ctx) Raw(line string) {
	if c.quant > 0 && strings.Contains(line, "|q!") {
		return
	}
	c.lines = append(c.lines, line)
}

func (c *Ctx) RawOnce(key, line string) {
	if c.quant > 0 && strings.Contains(line, "|q!") {
		return
	}
	if !c.decl[key] {
		c.decl[key] = true
		c.lines = append(c.lines, line)
	}
}

func (c *Ctx) Assert(t Term) {
	if t.S == "true" {
		return
	}
	if c.quant > 0 {
		return // facts about terms under a binder are dropped (weaker assumptions: sound)
	}
	c.lines = append(c.lines, "(assert "+t.S+")")
	c.noteGlobal(t.S)
}

// noteGlobal records an asserted fact of the shape (forall ((|q!..| S)) body) or (=> g (forall ...)) for instantiation.
func (c *Ctx) noteGlobal(f string) {
	if !strings.Contains(f, "(forall ((|q!") {
		return
	}
	guard := ""
	if op, args, ok := topArgs(f); ok && op == "=>" && len(args) == 2 {
		guard, f = args[0], args[1]
	}
	if vs, body, ok := parseForallN(f); ok {
		c.globalQ = append(c.globalQ, qInst{guard: guard, bv: vs[0][0], sort: vs[0][1], more: vs[1:], body: body, line: len(c.lines) - 1})
	}
}

func (c *Ctx) Mark() int { return len(c.lines) }

func App(sort Sort, f string, args ...Term) Term {
	if len(args) == 0 {
		return Term{f, sort}
	}
	var as []string
	for _, a := range args {
		as = append(as, a.S)
	}
	return Term{"(" + f + " " + strings.Join(as, " ") + ")", sort}
}

const prelude = `(declare-datatypes ((Slice 0)) (((mk-slice (s-base Int) (s-off Int) (s-len Int) (s-cap Int)))))
(declare-datatypes ((Iface 0)) (((mk-iface (i-tag Int) (i-val Int)))))
(define-fun subref ((p Int) (i Int)) Int (- (+ (* 1024 (ite (>= p 0) p (- p))) i)))
(define-fun godiv ((a Int) (b Int)) Int (ite (>= a 0) (ite (> b 0) (div a b) (- (div a (- b)))) (ite (> b 0) (- (div (- a) b)) (div (- a) (- b)))))
(define-fun gomod ((a Int) (b Int)) Int (- a (* b (godiv a b))))
(define-fun wrap64 ((x Int)) Int (- (mod (+ x 9223372036854775808) 18446744073709551616) 9223372036854775808))
(define-fun wrap32 ((x Int)) Int (- (mod (+ x 2147483648) 4294967296) 2147483648))
`

func sortedKeys[V any](m map[string]V) []string {
	ks := make([]string, 0, len(m))
	for k := range m {
		ks = append(ks, k)
	}
	sort.Strings(ks)
	return ks
}
