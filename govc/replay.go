package main

// tryReplay attempts to confirm a counterexample model on the real code.
func tryReplay(eng *Engine, o *Obligation, verif string) (bool, string) {
	return false, ""
}
