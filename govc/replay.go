package main

import (
	"bytes"
	"encoding/json"
	"fmt"
	"go/ast"
	"go/token"
	"go/types"
	"os"
	"os/exec"
	"path/filepath"
	"regexp"
	"strconv"
	"strings"

	"golang.org/x/tools/go/ssa"
)

// ---- counterexample replay
//
// A failed postcondition of a function over scalars (strings, integers, booleans; no receiver) comes with a solver
// model of the parameters. The model is run against the real code: an in-package test, injected with `go test
// -overlay` (nothing is written into /repo), calls the function with the model's arguments and evaluates the contract's
// `requires` clauses and the violated `ensures` clause, translated to Go. If the preconditions hold and the
// postcondition is false on the real result, the counterexample is confirmed and the VIOLATION line carries a failing
// input. Everything else (no model, unsupported parameter types or contract constructs, the model does not reproduce)
// leaves the violation reported with `no-failing-input-found`.

// tryReplay attempts to confirm a counterexample model on the real code.
func tryReplay(eng *Engine, o *Obligation, verif string) (bool, string) {
	if o.Class != "post" || o.Model == "" {
		return false, ""
	}
	fn := eng.findByShortName(o.Func)
	if fn == nil || fn.Signature.Recv() != nil || fn.Parent() != nil || fn.Pkg == nil {
		return false, ""
	}
	ct := eng.contractFor(fn)
	if ct == nil {
		return false, ""
	}
	// the violated clause
	i := strings.Index(o.Name, "#post:")
	if i < 0 {
		return false, ""
	}
	label := o.Name[i+len("#post:"):]
	if k := strings.LastIndex(label, "~"); k >= 0 {
		label = label[:k]
	}
	var clause *Clause
	for ci := range ct.Ensures {
		if clauseLabel(ct.Ensures[ci], ci) == label {
			clause = &ct.Ensures[ci]
		}
	}
	if clause == nil {
		return false, ""
	}
	model := parseModel(o.Model)
	tr := &goTranslator{eng: eng, pkgPath: fn.Pkg.Pkg.Path(), specs: map[string]string{}, params: map[string]bool{}}
	var args []string
	var shown []string
	for _, p := range fn.Params {
		tr.params[p.Name()] = true
		v, ok := model["p!"+p.Name()]
		lit, err := goLiteral(v, ok, p.Type())
		if err != nil {
			return false, "not replayed: " + err.Error()
		}
		args = append(args, lit)
		shown = append(shown, p.Name()+" = "+lit)
	}
	res := fn.Signature.Results()
	var resNames []string
	switch res.Len() {
	case 0:
	case 1:
		resNames = []string{"result"}
		tr.params["result"] = true
	default:
		for k := 0; k < res.Len(); k++ {
			n := fmt.Sprintf("result%d", k)
			resNames = append(resNames, n)
			tr.params[n] = true
		}
	}
	post, err := tr.expr(clause.Expr)
	if err != nil {
		return false, "not replayed: the violated clause is outside the translatable subset (" + err.Error() + ")"
	}
	var pres []string
	for _, r := range ct.Requires {
		g, err := tr.expr(r.Expr)
		if err != nil {
			return false, "not replayed: a precondition is outside the translatable subset (" + err.Error() + ")"
		}
		pres = append(pres, g)
	}
	// the test file
	var b bytes.Buffer
	fmt.Fprintf(&b, "package %s\n\nimport (\n\t\"strings\"\n\t\"testing\"\n)\n\nvar _ = strings.Contains\n\n", fn.Pkg.Pkg.Name())
	b.WriteString("func govcIte[T any](c bool, a, b T) T {\n\tif c {\n\t\treturn a\n\t}\n\treturn b\n}\n\n")
	b.WriteString("func govcForall(lo, hi int, f func(int) bool) bool {\n\tfor i := lo; i < hi; i++ {\n\t\tif !f(i) {\n\t\t\treturn false\n\t\t}\n\t}\n\treturn true\n}\n\n")
	b.WriteString("func govcExists(lo, hi int, f func(int) bool) bool {\n\tfor i := lo; i < hi; i++ {\n\t\tif f(i) {\n\t\t\treturn true\n\t\t}\n\t}\n\treturn false\n}\n\n")
	b.WriteString("func govcSubstr(s string, i, j int) string {\n\tif i < 0 {\n\t\ti = 0\n\t}\n\tif j > len(s) {\n\t\tj = len(s)\n\t}\n\tif j < i {\n\t\treturn \"\"\n\t}\n\treturn s[i:j]\n}\n\n")
	for _, name := range sortedKeys(tr.specs) {
		b.WriteString(tr.specs[name])
		b.WriteString("\n")
	}
	b.WriteString("func TestGovcReplay(t *testing.T) {\n")
	for k, p := range fn.Params {
		fmt.Fprintf(&b, "\tvar %s %s = %s\n\t_ = %s\n", p.Name(), types.TypeString(p.Type(), func(pk *types.Package) string {
			if pk.Path() == fn.Pkg.Pkg.Path() {
				return ""
			}
			return pk.Name()
		}), args[k], p.Name())
	}
	for k, g := range pres {
		fmt.Fprintf(&b, "\tif !(%s) {\n\t\tt.Logf(\"GOVC-REPLAY precondition %d does not hold for the model\")\n\t\treturn\n\t}\n", g, k)
	}
	var pnames []string
	for _, p := range fn.Params {
		pnames = append(pnames, p.Name())
	}
	call := fn.Name() + "(" + strings.Join(pnames, ", ") + ")"
	// results of named scalar types are compared through their underlying type (the contract language is untyped there)
	convs := ""
	for k, r := range resNames {
		rt := res.At(k).Type()
		if bt, ok := rt.Underlying().(*types.Basic); ok && rt != types.Type(bt) {
			convs += fmt.Sprintf("\t%s_u := %s(%s)\n\t_ = %s_u\n", r, bt.Name(), r, r)
			post = regexp.MustCompile(`\b`+r+`\b`).ReplaceAllString(post, r+"_u")
		}
	}
	if len(resNames) > 0 {
		fmt.Fprintf(&b, "\t%s := %s\n", strings.Join(resNames, ", "), call)
		for _, r := range resNames {
			fmt.Fprintf(&b, "\t_ = %s\n", r)
		}
		b.WriteString(convs)
	} else {
		fmt.Fprintf(&b, "\t%s\n", call)
	}
	fmt.Fprintf(&b, "\tif !(%s) {\n\t\tt.Fatalf(\"GOVC-REPLAY-VIOLATION postcondition [%s] is false on the real code; results: %%#v\", []interface{}{%s})\n\t}\n\tt.Logf(\"GOVC-REPLAY postcondition holds for the model input\")\n}\n",
		post, label, strings.Join(resNames, ", "))
	// When the model does not reproduce (library functions are uninterpreted in the proof, so the solver's strings
	// can be artefacts), the same check is run over a small grid of inputs built from the literals of the function
	// and of its contract: the obligation has failed already; this only looks for a concrete input that shows it.
	alphabet := literalAlphabet(fn, ct)
	b.WriteString("\nfunc govcStrings(alpha []string, maxLen int) []string {\n\tout := []string{\"\"}\n\tlevel := []string{\"\"}\n\tfor l := 0; l < maxLen; l++ {\n\t\tvar next []string\n\t\tfor _, s := range level {\n\t\t\tfor _, a := range alpha {\n\t\t\t\tnext = append(next, s+a)\n\t\t\t}\n\t\t}\n\t\tout = append(out, next...)\n\t\tlevel = next\n\t}\n\treturn out\n}\n\n")
	b.WriteString("func TestGovcReplaySearch(t *testing.T) {\n")
	nStr := 0
	for _, p := range fn.Params {
		if bt, ok := p.Type().Underlying().(*types.Basic); ok && bt.Info()&types.IsString != 0 {
			nStr++
		}
	}
	maxLen := 4
	if nStr > 1 {
		maxLen = 2
	}
	fmt.Fprintf(&b, "\talpha := []string{%s}\n\tstrs := govcStrings(alpha, %d)\n\tints := []int64{-1, 0, 1, 2, 3, 10}\n\tbools := []bool{false, true}\n\t_, _, _ = strs, ints, bools\n", alphabet, maxLen)
	closeBraces := 0
	for _, p := range fn.Params {
		bt := p.Type().Underlying().(*types.Basic)
		tn := types.TypeString(p.Type(), func(pk *types.Package) string {
			if pk.Path() == fn.Pkg.Pkg.Path() {
				return ""
			}
			return pk.Name()
		})
		switch {
		case bt.Info()&types.IsString != 0:
			fmt.Fprintf(&b, "\tfor _, c_%s := range strs {\n\t%s := %s(c_%s)\n", p.Name(), p.Name(), tn, p.Name())
		case bt.Info()&types.IsBoolean != 0:
			fmt.Fprintf(&b, "\tfor _, c_%s := range bools {\n\t%s := %s(c_%s)\n", p.Name(), p.Name(), tn, p.Name())
		default:
			fmt.Fprintf(&b, "\tfor _, c_%s := range ints {\n\t%s := %s(c_%s)\n", p.Name(), p.Name(), tn, p.Name())
		}
		fmt.Fprintf(&b, "\t_ = %s\n", p.Name())
		closeBraces++
	}
	b.WriteString("\tfunc() {\n\t\tdefer func() { _ = recover() }()\n")
	for _, g := range pres {
		fmt.Fprintf(&b, "\t\tif !(%s) {\n\t\t\treturn\n\t\t}\n", g)
	}
	if len(resNames) > 0 {
		fmt.Fprintf(&b, "\t\t%s := %s\n", strings.Join(resNames, ", "), call)
		for _, r := range resNames {
			fmt.Fprintf(&b, "\t\t_ = %s\n", r)
		}
		b.WriteString(convs)
	} else {
		fmt.Fprintf(&b, "\t\t%s\n", call)
	}
	fmt.Fprintf(&b, "\t\tif !(%s) {\n\t\t\tt.Fatalf(\"GOVC-REPLAY-VIOLATION postcondition [%s] is false on the real code for input %%#v; results: %%#v\", []interface{}{%s}, []interface{}{%s})\n\t\t}\n\t}()\n",
		post, label, strings.Join(pnames, ", "), strings.Join(resNames, ", "))
	for k := 0; k < closeBraces; k++ {
		b.WriteString("\t}\n")
	}
	b.WriteString("\tt.Logf(\"GOVC-REPLAY search: no failing input in the grid\")\n}\n")

	// run it
	repDir := filepath.Join(verif, "replays")
	os.MkdirAll(repDir, 0o755)
	base := "replay_" + sanitize(o.Name)
	testFile := filepath.Join(repDir, base+"_test.go")
	if err := os.WriteFile(testFile, b.Bytes(), 0o644); err != nil {
		return false, "not replayed: " + err.Error()
	}
	pkgDir := filepath.Join(eng.repo, strings.TrimPrefix(fn.Pkg.Pkg.Path(), eng.modulePath()+"/"))
	overlay := map[string]map[string]string{"Replace": {filepath.Join(pkgDir, "zz_govc_replay_test.go"): testFile}}
	ov, _ := json.Marshal(overlay)
	ovFile := filepath.Join(repDir, base+".overlay.json")
	os.WriteFile(ovFile, ov, 0o644)
	cmd := exec.Command("go", "test", "-overlay", ovFile, "-vet=off", "-count=1", "-timeout", "60s", "-run", "^TestGovcReplay(Search)?$", "-v", ".")
	cmd.Dir = pkgDir
	cmd.Env = append(os.Environ(), "GOFLAGS=-mod=mod", "GOPROXY=off", "GOSUMDB=off", "GOTOOLCHAIN=local")
	out, _ := cmd.CombinedOutput()
	text := string(out)
	if len(text) > 3000 {
		text = text[len(text)-3000:]
	}
	log := fmt.Sprintf("model input: %s\nreplay test: %s (run in %s with go test -overlay %s -run TestGovcReplay)\n%s", strings.Join(shown, ", "), testFile, pkgDir, ovFile, text)
	if k := strings.Index(string(out), "GOVC-REPLAY-VIOLATION"); k >= 0 {
		line := string(out)[k:]
		if e := strings.IndexByte(line, '\n'); e >= 0 {
			line = line[:e]
		}
		return true, "CONFIRMED on the real code: " + line + "\n" + log
	}
	return false, "the model did not reproduce on the real code (or could not be run).\n" + log
}

func (e *Engine) modulePath() string {
	if e.modPath != "" {
		return e.modPath
	}
	data, err := os.ReadFile(filepath.Join(e.repo, "go.mod"))
	if err == nil {
		for _, l := range strings.Split(string(data), "\n") {
			if strings.HasPrefix(l, "module ") {
				e.modPath = strings.TrimSpace(strings.TrimPrefix(l, "module "))
			}
		}
	}
	return e.modPath
}

func (e *Engine) findByShortName(short string) *ssa.Function {
	for _, p := range e.spkgs {
		for _, fn := range e.allFunctions(p.Pkg.Path()) {
			if e.shortName(fn) == short {
				return fn
			}
		}
	}
	return nil
}

// ---- solver model -> values

var defRe = regexp.MustCompile(`\(define-fun\s+(\|[^|]*\||[^\s()]+)\s+\(\)\s+(\S+)\s+`)

// parseModel extracts the nullary definitions of a z3 / cvc5 model: name -> value text.
func parseModel(m string) map[string]string {
	out := map[string]string{}
	for _, loc := range defRe.FindAllStringSubmatchIndex(m, -1) {
		name := strings.Trim(m[loc[2]:loc[3]], "|")
		rest := m[loc[1]:]
		// the value: a string literal, an atom, or a parenthesised term
		rest = strings.TrimLeft(rest, " \n\t")
		val := ""
		switch {
		case strings.HasPrefix(rest, "\""):
			j := 1
			for j < len(rest) {
				if rest[j] == '"' {
					if j+1 < len(rest) && rest[j+1] == '"' {
						j += 2
						continue
					}
					break
				}
				j++
			}
			if j < len(rest) {
				val = rest[:j+1]
			}
		case strings.HasPrefix(rest, "("):
			d := 0
			for j := 0; j < len(rest); j++ {
				if rest[j] == '(' {
					d++
				} else if rest[j] == ')' {
					d--
					if d == 0 {
						val = rest[:j+1]
						break
					}
				}
			}
		default:
			j := strings.IndexAny(rest, " )\n")
			if j > 0 {
				val = rest[:j]
			}
		}
		if val != "" {
			out[name] = val
		}
	}
	return out
}

var uEsc = regexp.MustCompile(`\\u\{([0-9a-fA-F]+)\}|\\u([0-9a-fA-F]{4})|\\x([0-9a-fA-F]{2})`)

func goLiteral(v string, present bool, t types.Type) (string, error) {
	b, ok := t.Underlying().(*types.Basic)
	if !ok {
		return "", fmt.Errorf("parameter of type %s is not a scalar", t)
	}
	switch {
	case b.Info()&types.IsString != 0:
		if !present {
			return `""`, nil
		}
		if len(v) < 2 || v[0] != '"' {
			return "", fmt.Errorf("unexpected string value %q", v)
		}
		s := strings.ReplaceAll(v[1:len(v)-1], `""`, `"`)
		s = uEsc.ReplaceAllStringFunc(s, func(m string) string {
			sub := uEsc.FindStringSubmatch(m)
			h := sub[1] + sub[2] + sub[3]
			n, err := strconv.ParseInt(h, 16, 32)
			if err != nil {
				return m
			}
			if n < 256 {
				return string([]byte{byte(n)})
			}
			return string(rune(n))
		})
		return strconv.Quote(s), nil
	case b.Info()&types.IsBoolean != 0:
		if v == "true" {
			return "true", nil
		}
		return "false", nil
	case b.Info()&types.IsInteger != 0:
		if !present {
			return "0", nil
		}
		s := strings.NewReplacer("(", "", ")", "", " ", "").Replace(v)
		if _, err := strconv.ParseInt(s, 10, 64); err != nil {
			return "", fmt.Errorf("integer value %q does not fit the parameter type", v)
		}
		return s, nil
	}
	return "", fmt.Errorf("parameter of type %s is not supported", t)
}

// ---- contract expression -> Go source

type goTranslator struct {
	eng     *Engine
	pkgPath string
	specs   map[string]string // spec function name -> Go source of its translation
	params  map[string]bool
	bound   []string
	busy    map[string]bool
}

func (g *goTranslator) expr(x ast.Expr) (string, error) {
	switch n := x.(type) {
	case *ast.ParenExpr:
		s, err := g.expr(n.X)
		return "(" + s + ")", err
	case *ast.Ident:
		if n.Name == "true" || n.Name == "false" {
			return n.Name, nil
		}
		for _, b := range g.bound {
			if b == n.Name {
				return n.Name, nil
			}
		}
		if g.params[n.Name] {
			return n.Name, nil
		}
		return "", fmt.Errorf("identifier %s", n.Name)
	case *ast.BasicLit:
		return n.Value, nil
	case *ast.UnaryExpr:
		s, err := g.expr(n.X)
		if err != nil {
			return "", err
		}
		switch n.Op {
		case token.NOT:
			return "!(" + s + ")", nil
		case token.SUB:
			return "-(" + s + ")", nil
		}
		return "", fmt.Errorf("operator %s", n.Op)
	case *ast.BinaryExpr:
		a, err := g.expr(n.X)
		if err != nil {
			return "", err
		}
		b, err := g.expr(n.Y)
		if err != nil {
			return "", err
		}
		switch n.Op {
		case token.LAND, token.LOR, token.EQL, token.NEQ, token.LSS, token.LEQ, token.GTR, token.GEQ, token.ADD, token.SUB, token.MUL:
			return "(" + a + " " + n.Op.String() + " " + b + ")", nil
		}
		return "", fmt.Errorf("operator %s", n.Op)
	case *ast.IndexExpr:
		a, err := g.expr(n.X)
		if err != nil {
			return "", err
		}
		i, err := g.expr(n.Index)
		if err != nil {
			return "", err
		}
		return "int(" + a + "[" + i + "])", nil // contracts index strings only (character codes)
	case *ast.CallExpr:
		id, ok := n.Fun.(*ast.Ident)
		if !ok {
			return "", fmt.Errorf("call of a non-builtin")
		}
		var as []string
		argsOf := func() error {
			for _, a := range n.Args {
				s, err := g.expr(a)
				if err != nil {
					return err
				}
				as = append(as, s)
			}
			return nil
		}
		switch id.Name {
		case "old":
			return g.expr(n.Args[0]) // parameters are scalars passed by value
		case "forall", "exists":
			if len(n.Args) != 4 {
				return "", fmt.Errorf("%s arity", id.Name)
			}
			v, ok := n.Args[0].(*ast.Ident)
			if !ok {
				return "", fmt.Errorf("%s variable", id.Name)
			}
			lo, err := g.expr(n.Args[1])
			if err != nil {
				return "", err
			}
			hi, err := g.expr(n.Args[2])
			if err != nil {
				return "", err
			}
			g.bound = append(g.bound, v.Name)
			body, err := g.expr(n.Args[3])
			g.bound = g.bound[:len(g.bound)-1]
			if err != nil {
				return "", err
			}
			f := "govcForall"
			if id.Name == "exists" {
				f = "govcExists"
			}
			return fmt.Sprintf("%s(%s, %s, func(%s int) bool { return %s })", f, lo, hi, v.Name, body), nil
		}
		if err := argsOf(); err != nil {
			return "", err
		}
		switch id.Name {
		case "len":
			return "len(" + as[0] + ")", nil
		case "implies":
			return "(!(" + as[0] + ") || (" + as[1] + "))", nil
		case "iff":
			return "((" + as[0] + ") == (" + as[1] + "))", nil
		case "ite":
			return "govcIte(" + strings.Join(as, ", ") + ")", nil
		case "replaceAll":
			return "strings.ReplaceAll(" + strings.Join(as, ", ") + ")", nil
		case "contains":
			return "strings.Contains(" + strings.Join(as, ", ") + ")", nil
		case "hasPrefix":
			return "strings.HasPrefix(" + strings.Join(as, ", ") + ")", nil
		case "hasSuffix":
			return "strings.HasSuffix(" + strings.Join(as, ", ") + ")", nil
		case "indexOf":
			return "strings.Index(" + strings.Join(as, ", ") + ")", nil
		case "substr":
			// substr(s, i, n): n characters from i (SMT str.substr)
			return "govcSubstr(" + as[0] + ", " + as[1] + ", (" + as[1] + ")+(" + as[2] + "))", nil
		}
		if sp := g.spec(id.Name); sp != nil {
			if err := g.emitSpec(sp); err != nil {
				return "", err
			}
			return "govcSpec_" + id.Name + "(" + strings.Join(as, ", ") + ")", nil
		}
		return "", fmt.Errorf("builtin or function %s", id.Name)
	}
	return "", fmt.Errorf("expression %T", x)
}

func (g *goTranslator) spec(name string) *SpecFunc {
	if sp, ok := g.eng.contracts.Specs[g.pkgPath+"::"+name]; ok {
		return sp
	}
	if sp, ok := g.eng.contracts.Specs[name]; ok {
		return sp
	}
	return nil
}

func (g *goTranslator) emitSpec(sp *SpecFunc) error {
	if _, done := g.specs[sp.Name]; done {
		return nil
	}
	goType := func(t string) (string, error) {
		switch t {
		case "string", "int", "bool":
			return t, nil
		}
		return "", fmt.Errorf("spec function %s uses type %s", sp.Name, t)
	}
	g.specs[sp.Name] = "" // placeholder: recursive specs refer to themselves
	var ps []string
	saveBound := g.bound
	for _, p := range sp.Params {
		t, err := goType(p.Type)
		if err != nil {
			return err
		}
		ps = append(ps, p.Name+" "+t)
		g.bound = append(g.bound, p.Name)
	}
	rt, err := goType(sp.Result)
	if err != nil {
		g.bound = saveBound
		return err
	}
	body, err := g.specBody(sp.Body, rt)
	g.bound = saveBound
	if err != nil {
		return err
	}
	g.specs[sp.Name] = fmt.Sprintf("func govcSpec_%s(%s) %s {\n%s}\n", sp.Name, strings.Join(ps, ", "), rt, body)
	return nil
}

// specBody: `ite(c, a, b)` at the top of a spec body becomes an if / else (lazy, so that recursive specs terminate).
func (g *goTranslator) specBody(x ast.Expr, rt string) (string, error) {
	if c, ok := x.(*ast.CallExpr); ok {
		if id, ok := c.Fun.(*ast.Ident); ok && id.Name == "ite" && len(c.Args) == 3 {
			cond, err := g.expr(c.Args[0])
			if err != nil {
				return "", err
			}
			a, err := g.specBody(c.Args[1], rt)
			if err != nil {
				return "", err
			}
			b, err := g.specBody(c.Args[2], rt)
			if err != nil {
				return "", err
			}
			return fmt.Sprintf("\tif %s {\n%s\t}\n%s", cond, a, b), nil
		}
	}
	s, err := g.expr(x)
	if err != nil {
		return "", err
	}
	return "\treturn " + s + "\n", nil
}

// literalAlphabet: the characters of the string literals in the function's code and contract (plus a letter), as Go
// string literals separated by commas — the alphabet of the replay search grid.
func literalAlphabet(fn *ssa.Function, ct *FuncContract) string {
	seen := map[string]bool{}
	var out []string
	add := func(s string) {
		for _, r := range s {
			c := string(r)
			if !seen[c] && len(out) < 6 {
				seen[c] = true
				out = append(out, strconv.Quote(c))
			}
		}
	}
	collect := func(e ast.Expr) {
		ast.Inspect(e, func(n ast.Node) bool {
			if bl, ok := n.(*ast.BasicLit); ok && bl.Kind == token.STRING {
				if s, err := strconv.Unquote(bl.Value); err == nil {
					add(s)
				}
			}
			return true
		})
	}
	for _, b := range fn.Blocks {
		for _, in := range b.Instrs {
			for _, op := range in.Operands(nil) {
				if c, ok := (*op).(*ssa.Const); ok && c.Value != nil && c.Value.Kind().String() == "String" {
					if s, err := strconv.Unquote(c.Value.ExactString()); err == nil {
						add(s)
					}
				}
			}
		}
	}
	for _, c := range ct.Ensures {
		collect(c.Expr)
	}
	for _, c := range ct.Requires {
		collect(c.Expr)
	}
	add("a")
	return strings.Join(out, ", ")
}
