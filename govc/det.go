package main

import (
	"fmt"
	"go/token"
	"go/types"
	"sort"
	"strings"

	"golang.org/x/tools/go/ssa"
)

// ---- determinism typestate (obligation class "det")
//
// Go randomises map iteration order, so a `range` over a map may influence ordered output only through values that
// are order-free. For every map-range loop of the functions under analysis one obligation is generated; it is
// discharged when every effect of the loop body is one of
//   (i)   collect-then-sort: elements are appended to a slice that is loop-carried, and every use of that slice
//         after the loop is dominated by a sort.* call on it;
//   (ii)  order-free sinks: map inserts / deletes, set-like membership, writes to per-iteration fresh objects;
//   (iii) no emission: the body (and what it calls) does not write to a writer / builder, does not append to a slice
//         that outlives the loop unsorted, and does not concatenate onto a loop-carried string.
// Anything else fails the obligation (with the offending instruction as the reason).

var sinkMethodNames = map[string]bool{"Write": true, "WriteString": true, "WriteByte": true, "WriteRune": true,
	"Fprintf": true, "Fprint": true, "Fprintln": true, "Printf": true, "Println": true, "Print": true}

var sortFuncs = map[string]bool{"sort.Strings": true, "sort.Ints": true, "sort.Float64s": true, "sort.Slice": true,
	"sort.SliceStable": true, "sort.Sort": true, "sort.Stable": true, "slices.Sort": true, "slices.SortFunc": true}

func isSinkCall(c *ssa.CallCommon) (bool, string) {
	if c.IsInvoke() {
		if sinkMethodNames[c.Method.Name()] {
			return true, c.Method.FullName()
		}
		return false, ""
	}
	callee := c.StaticCallee()
	if callee == nil {
		return false, ""
	}
	full := callee.String()
	switch {
	case strings.HasPrefix(full, "fmt.Fprint"), strings.HasPrefix(full, "fmt.Print"), strings.HasPrefix(full, "io.WriteString"):
		return true, full
	case strings.HasPrefix(full, "(*strings.Builder).Write"), strings.HasPrefix(full, "(*bytes.Buffer).Write"),
		strings.HasPrefix(full, "(*bufio.Writer).Write"), strings.HasPrefix(full, "(*os.File).Write"):
		return true, full
	}
	return false, ""
}

// emitters: functions that (transitively, through static calls and name-resolved interface calls) write ordered output
// or append to a slice reachable from their parameters.
func (e *Engine) computeEmitters() map[*ssa.Function]string {
	if e.emitters != nil {
		return e.emitters
	}
	em := map[*ssa.Function]string{}
	var fns []*ssa.Function
	byName := map[string][]*ssa.Function{}
	for p := range e.spkgs {
		if !strings.HasPrefix(p, modulePath) {
			continue
		}
		for _, fn := range e.allFunctions(p) {
			fns = append(fns, fn)
			byName[fn.Name()] = append(byName[fn.Name()], fn)
		}
	}
	direct := func(fn *ssa.Function) string {
		for _, b := range fn.Blocks {
			for _, in := range b.Instrs {
				switch x := in.(type) {
				case ssa.CallInstruction:
					if ok, what := isSinkCall(x.Common()); ok {
						return "calls " + what
					}
				case *ssa.Store:
					// x.f = append(x.f, ...): appending to a slice that lives in an object the caller can see
					if call, ok := x.Val.(*ssa.Call); ok {
						if b, ok := call.Call.Value.(*ssa.Builtin); ok && b.Name() == "append" && accumulates(call, x.Addr) {
							switch x.Addr.(type) {
							case *ssa.FieldAddr, *ssa.Parameter, *ssa.FreeVar, *ssa.IndexAddr:
								if !addrRootIsLocalAlloc(x.Addr) {
									return "appends to a slice stored in " + x.Addr.Name()
								}
							case *ssa.UnOp:
								return "appends to a slice stored through a pointer"
							}
						}
					}
				}
			}
		}
		return ""
	}
	for _, fn := range fns {
		if r := direct(fn); r != "" {
			em[fn] = r
		}
	}
	for changed := true; changed; {
		changed = false
		for _, fn := range fns {
			if _, ok := em[fn]; ok {
				continue
			}
			for _, b := range fn.Blocks {
				for _, in := range b.Instrs {
					ci, ok := in.(ssa.CallInstruction)
					if !ok {
						continue
					}
					c := ci.Common()
					var targets []*ssa.Function
					if c.IsInvoke() {
						if nt, ok := c.Value.Type().(*types.Named); ok && nt.Obj().Pkg() != nil && strings.HasPrefix(nt.Obj().Pkg().Path(), modulePath) {
							targets = byName[c.Method.Name()]
						}
					} else if sc := c.StaticCallee(); sc != nil {
						targets = []*ssa.Function{sc}
					}
					for _, t := range targets {
						if r, ok := em[t]; ok {
							em[fn] = "calls " + e.shortName(t) + " (" + r + ")"
							changed = true
						}
					}
					if _, ok := em[fn]; ok {
						break
					}
				}
				if _, ok := em[fn]; ok {
					break
				}
			}
		}
	}
	e.emitters = em
	return em
}

func addrRootIsLocalAlloc(v ssa.Value) bool {
	switch x := v.(type) {
	case *ssa.Alloc:
		return true
	case *ssa.FieldAddr:
		return addrRootIsLocalAlloc(x.X)
	case *ssa.IndexAddr:
		return addrRootIsLocalAlloc(x.X)
	}
	return false
}

// detAnalysis produces one obligation per map-range loop of the selected functions.
func (e *Engine) detAnalysis(patterns []string) []*Obligation {
	if len(patterns) == 0 {
		return nil
	}
	em := e.computeEmitters()
	var out []*Obligation
	var paths []string
	for p := range e.spkgs {
		if strings.HasPrefix(p, modulePath) {
			paths = append(paths, p)
		}
	}
	sort.Strings(paths)
	for _, p := range paths {
		for _, fn := range e.allFunctions(p) {
			sn := e.shortName(fn)
			if !matchFunc(patterns, sn) {
				continue
			}
			out = append(out, e.detFunction(fn, em)...)
		}
	}
	return out
}

// unsortedReturners: functions that return a slice built in map iteration order without sorting it.
func (e *Engine) unsortedReturners(em map[*ssa.Function]string) map[*ssa.Function]bool {
	if e.unsortedRet != nil {
		return e.unsortedRet
	}
	e.unsortedRet = map[*ssa.Function]bool{}
	for p := range e.spkgs {
		if !strings.HasPrefix(p, modulePath) {
			continue
		}
		for _, fn := range e.allFunctions(p) {
			li := e.loopsOf(fn)
			for h := range li.headers {
				isMapRange := false
				for _, in := range fn.Blocks[h].Instrs {
					if nx, ok := in.(*ssa.Next); ok && !nx.IsString {
						if rg, ok := nx.Iter.(*ssa.Range); ok && isMap(rg.X.Type()) {
							isMapRange = true
						}
					}
				}
				if !isMapRange {
					continue
				}
				for _, r := range e.detLoop(fn, li, h, em) {
					if strings.Contains(r, "is returned without being sorted") {
						e.unsortedRet[fn] = true
					}
				}
			}
		}
	}
	return e.unsortedRet
}

func (e *Engine) detFunction(fn *ssa.Function, em map[*ssa.Function]string) []*Obligation {
	var out []*Obligation
	li := e.loopsOf(fn)
	// results of functions that return map-ordered slices must be sorted before any order-sensitive use
	ur := e.unsortedReturners(em)
	cnt := map[string]int{}
	for _, b := range fn.Blocks {
		for _, in := range b.Instrs {
			call, ok := in.(*ssa.Call)
			if !ok {
				continue
			}
			sc := call.Call.StaticCallee()
			if sc == nil || !ur[sc] {
				continue
			}
			base := fmt.Sprintf("%s#det:unsorted-result:%s", e.shortName(fn), e.shortName(sc))
			cnt[base]++
			name := base
			if cnt[base] > 1 {
				name = fmt.Sprintf("%s~%d", base, cnt[base])
			}
			o := &Obligation{Name: name, Class: "det", Func: e.shortName(fn), Solver: "govc-typestate"}
			if p := e.prog.Fset.Position(call.Pos()); p.IsValid() {
				o.Pos = fmt.Sprintf("%s:%d", strings.TrimPrefix(p.Filename, e.repo+"/"), p.Line)
			}
			// -1: no enclosing loop to exclude
			reasons := e.unsortedUsesOutside(fn, call)
			if len(reasons) == 0 {
				o.Status, o.Detail = "proved", "the map-ordered result is sorted before any order-sensitive use (or only counted)"
			} else {
				o.Status, o.Detail = "failed", strings.Join(reasons, "; ")
			}
			out = append(out, o)
		}
	}
	// comparators of sort.Slice / sort.SliceStable: a comparator that orders by a derived key only (a line number, a
	// field, a map lookup) leaves elements with equal keys in whatever order the (unstable, or map-fed) input had; it is
	// accepted when some comparison in it is between the slice's elements themselves (x[i] < x[j]: the tie-break)
	ccnt := map[string]int{}
	for _, b := range fn.Blocks {
		for _, in := range b.Instrs {
			call, ok := in.(*ssa.Call)
			if !ok {
				continue
			}
			sc := call.Call.StaticCallee()
			if sc == nil || (sc.String() != "sort.Slice" && sc.String() != "sort.SliceStable") || len(call.Call.Args) < 2 {
				continue
			}
			mc, ok := call.Call.Args[1].(*ssa.MakeClosure)
			if !ok {
				continue
			}
			less := mc.Fn.(*ssa.Function)
			base := fmt.Sprintf("%s#det:comparator-breaks-ties:%s", e.shortName(fn), e.shortName(less))
			ccnt[base]++
			name := base
			if ccnt[base] > 1 {
				name = fmt.Sprintf("%s~%d", base, ccnt[base])
			}
			o := &Obligation{Name: name, Class: "det", Func: e.shortName(fn), Solver: "govc-typestate"}
			if p := e.prog.Fset.Position(call.Pos()); p.IsValid() {
				o.Pos = fmt.Sprintf("%s:%d", strings.TrimPrefix(p.Filename, e.repo+"/"), p.Line)
			}
			if comparesElements(less) {
				o.Status, o.Detail = "proved", "the comparator compares the elements themselves (directly or as a tie-break)"
			} else {
				o.Status, o.Detail = "failed", "the comparator orders by a derived key only: elements with equal keys keep the order of the input, which sort.Slice does not preserve"
			}
			out = append(out, o)
		}
	}
	type loopRec struct {
		h    int
		next *ssa.Next
	}
	var loops []loopRec
	for h := range li.headers {
		for _, in := range fn.Blocks[h].Instrs {
			if nx, ok := in.(*ssa.Next); ok && !nx.IsString {
				if rg, ok := nx.Iter.(*ssa.Range); ok && isMap(rg.X.Type()) {
					loops = append(loops, loopRec{h, nx})
				}
			}
		}
	}
	sort.Slice(loops, func(i, j int) bool { return li.ordinal[loops[i].h] < li.ordinal[loops[j].h] })
	names := map[string]int{}
	for _, l := range loops {
		rg := l.next.Iter.(*ssa.Range)
		label := e.snippetNode(rg.Pos(), fn, nil)
		if label == "?" || label == "synthetic" {
			label = rg.X.Name()
		}
		base := fmt.Sprintf("%s#det:maprange:%s", e.shortName(fn), label)
		names[base]++
		name := base
		if names[base] > 1 {
			name = fmt.Sprintf("%s~%d", base, names[base])
		}
		o := &Obligation{Name: name, Class: "det", Func: e.shortName(fn), Solver: "govc-typestate"}
		if p := e.prog.Fset.Position(rg.Pos()); p.IsValid() {
			o.Pos = fmt.Sprintf("%s:%d", strings.TrimPrefix(p.Filename, e.repo+"/"), p.Line)
		}
		reasons := e.detLoop(fn, li, l.h, em)
		if len(reasons) == 0 {
			o.Status = "proved"
			o.Detail = "map-range body is order-free or collect-then-sort"
		} else {
			o.Status = "failed"
			o.Detail = strings.Join(reasons, "; ")
		}
		out = append(out, o)
	}
	return out
}

// detLoop returns the reasons why the map-range loop with header h may make ordered output depend on iteration order.
func (e *Engine) detLoop(fn *ssa.Function, li *loopInfo, h int, em map[*ssa.Function]string) []string {
	var reasons []string
	body := li.body[h]
	inLoop := func(b *ssa.BasicBlock) bool { return body[b.Index] }
	// loop-carried values
	phis := map[ssa.Value]bool{}
	for bi := range body {
		// phis of the header and of nested headers
		for _, in := range fn.Blocks[bi].Instrs {
			if p, ok := in.(*ssa.Phi); ok && li.headers[bi] {
				phis[p] = true
			}
		}
	}
	var collectors []ssa.Value // slices built in the loop that are live afterwards
	for bi := range body {
		for _, in := range fn.Blocks[bi].Instrs {
			pos := in.Pos()
			where := ""
			if pos.IsValid() {
				where = fmt.Sprintf(" (line %d)", e.prog.Fset.Position(pos).Line)
			}
			switch x := in.(type) {
			case *ssa.BinOp:
				if x.Op == token.ADD && sortOf(x.Type()) == SString && (phis[x.X] || phis[x.Y]) {
					reasons = append(reasons, "string concatenation onto a loop-carried value"+where)
				}
			case ssa.CallInstruction:
				c := x.Common()
				if b, ok := c.Value.(*ssa.Builtin); ok {
					if b.Name() == "append" {
						if v, ok := in.(ssa.Value); ok {
							// where does the appended slice go?
							carried := false
							if refs := v.Referrers(); refs != nil {
								for _, r := range *refs {
									switch y := r.(type) {
									case *ssa.Phi:
										if phis[y] || inLoop(y.Block()) {
											carried = true
										}
									case *ssa.Store:
										if y.Val == v && !addrRootIsLocalAlloc(y.Addr) {
											if call, ok := in.(*ssa.Call); ok && !accumulates(call, y.Addr) {
												continue // x.f = append(other, ...): an assignment, not an accumulation across iterations
											}
											if !e.sortedAfterLoop(fn, li, h, y.Addr) {
												reasons = append(reasons, "appends in map order to a slice stored in "+e.snippetNode(y.Pos(), fn, nil)+where+" which is not sorted afterwards")
											}
										} else if y.Val == v {
											carried = true
											collectors = append(collectors, y.Addr)
										}
									}
								}
							}
							if carried {
								collectors = append(collectors, v)
							}
						}
					}
					continue
				}
				if ok, what := isSinkCall(c); ok {
					reasons = append(reasons, "writes output in map order: "+what+where)
					continue
				}
				var targets []*ssa.Function
				if sc := c.StaticCallee(); sc != nil {
					targets = append(targets, sc)
				}
				for _, t := range targets {
					if r, ok := em[t]; ok {
						reasons = append(reasons, "calls "+e.shortName(t)+" in map order, which "+r+where)
					}
				}
			}
		}
	}
	// a loop-carried value (other than a flag) handed to a call inside the body: what the call does for this entry
	// depends on the entries visited before it — a running counter that numbers things, an accumulated prefix
	for bi := range body {
		for _, in := range fn.Blocks[bi].Instrs {
			call, ok := in.(*ssa.Call)
			if !ok {
				continue
			}
			if _, isB := call.Call.Value.(*ssa.Builtin); isB {
				continue
			}
			for _, a := range call.Call.Args {
				ph, isPhi := a.(*ssa.Phi)
				if !isPhi || !phis[ph] || !li.headers[ph.Block().Index] || ph.Block().Index != h {
					continue
				}
				if bt, ok := ph.Type().Underlying().(*types.Basic); ok && (bt.Info()&types.IsInteger != 0 || bt.Info()&types.IsString != 0) {
					reasons = append(reasons, fmt.Sprintf("hands the loop-carried value %s to %s: the result for an entry depends on the entries before it (line %d)", ph.Comment, e.calleeLabel(call), e.prog.Fset.Position(call.Pos()).Line))
				}
			}
		}
	}
	// first match: a value that depends on the entry at hand leaves the loop on an early exit — returned from inside the
	// body, or carried out through a phi after a break. Which entry "the first" is depends on the iteration order.
	// (Leaving with a constant — `return true` of an existence test — does not.)
	dep := map[ssa.Value]bool{}
	for _, in := range fn.Blocks[h].Instrs {
		if nx, ok := in.(*ssa.Next); ok {
			if refs := nx.Referrers(); refs != nil {
				for _, r := range *refs {
					if ex, ok := r.(*ssa.Extract); ok && ex.Index > 0 {
						dep[ex] = true
					}
				}
			}
		}
	}
	// values that depend on the entry at hand, followed through the whole function: out of the loop they can only get
	// through an early exit (the loop's own end passes on loop-carried phis, which are not followed here)
	for changed := true; changed; {
		changed = false
		for _, blk := range fn.Blocks {
			for _, in := range blk.Instrs {
				v, ok := in.(ssa.Value)
				if !ok || dep[v] {
					continue
				}
				if _, isPhi := in.(*ssa.Phi); isPhi && inLoop(blk) && li.headers[blk.Index] {
					continue // loop-carried accumulators are judged by the rules above
				}
				if _, isCall := in.(*ssa.Call); isCall && !inLoop(blk) {
					continue // what a later call makes of the value is that call's business
				}
				for _, op := range in.Operands(nil) {
					if *op != nil && dep[*op] {
						dep[v] = true
						changed = true
						break
					}
				}
			}
		}
	}
	// map inserts are order-free only while distinct entries go to distinct keys: an insert whose key is computed from
	// the entry by a call (lower-casing, trimming, a look-up) can send two entries to one key, and the survivor is the
	// one visited last; the same holds for an entry-dependent value stored under a key that does not depend on the entry
	for bi := range body {
		for _, in := range fn.Blocks[bi].Instrs {
			mu, ok := in.(*ssa.MapUpdate)
			if !ok {
				continue
			}
			line := e.prog.Fset.Position(mu.Pos()).Line
			if dep[mu.Key] {
				k := mu.Key
				for {
					if c, ok := k.(*ssa.ChangeType); ok {
						k = c.X
						continue
					}
					if c, ok := k.(*ssa.Convert); ok {
						k = c.X
						continue
					}
					break
				}
				if _, isCall := k.(*ssa.Call); isCall && dep[mu.Value] {
					reasons = append(reasons, fmt.Sprintf("inserts under a key computed from the entry by a call: two entries can meet on one key and the last one visited wins (line %d)", line))
				}
			}
		}
	}
	if len(dep) > 0 {
		for _, blk := range fn.Blocks {
			for _, in := range blk.Instrs {
				if ret, ok := in.(*ssa.Return); ok {
					for _, r := range ret.Results {
						// a flag or an error that stops the search is the same answer whichever entry raised it first
						// (which of several errors is reported is not followed here)
						if bt, ok := r.Type().Underlying().(*types.Basic); ok && bt.Kind() == types.Bool {
							continue
						}
						if r.Type().String() == "error" {
							continue
						}
						if dep[r] {
							reasons = append(reasons, fmt.Sprintf("returns a value taken from the first matching entry in map order (line %d)", e.prog.Fset.Position(ret.Pos()).Line))
							break
						}
					}
				}
			}
		}
	}
	// collect-then-sort: every use after the loop of a slice built in the loop must be dominated by a sort
	seen := map[ssa.Value]bool{}
	for _, c := range collectors {
		for _, r := range e.unsortedUses(fn, li, h, c, seen) {
			reasons = append(reasons, r)
		}
	}
	// de-duplicate
	uniq := map[string]bool{}
	var out []string
	for _, r := range reasons {
		if !uniq[r] {
			uniq[r] = true
			out = append(out, r)
		}
	}
	return out
}

// sortedAfterLoop: is there, after the loop, a sort.* call on a load of an address with the same shape?
func (e *Engine) sortedAfterLoop(fn *ssa.Function, li *loopInfo, h int, addr ssa.Value) bool {
	fa, ok := addr.(*ssa.FieldAddr)
	if !ok {
		return false
	}
	for _, b := range fn.Blocks {
		if li.body[h][b.Index] {
			continue
		}
		for _, in := range b.Instrs {
			call, ok := in.(*ssa.Call)
			if !ok {
				continue
			}
			sc := call.Call.StaticCallee()
			if sc == nil || !sortFuncs[sc.String()] || len(call.Call.Args) == 0 {
				continue
			}
			arg := call.Call.Args[0]
			if mi, ok := arg.(*ssa.MakeInterface); ok {
				arg = mi.X
			}
			if ld, ok := arg.(*ssa.UnOp); ok {
				if fa2, ok := ld.X.(*ssa.FieldAddr); ok && fa2.Field == fa.Field && fa2.X == fa.X {
					return true
				}
			}
		}
	}
	return false
}

// unsortedUses lists uses, outside the loop, of a slice collected in the loop that are not dominated by a sort of it.
func (e *Engine) unsortedUses(fn *ssa.Function, li *loopInfo, h int, root ssa.Value, seen map[ssa.Value]bool) []string {
	// aliases: the phi chain of the collected slice
	aliases := map[ssa.Value]bool{}
	var work []ssa.Value
	work = append(work, root)
	// a slice accumulated in a field of a local struct variable travels with that variable
	for a := root; ; {
		fa, ok := a.(*ssa.FieldAddr)
		if !ok {
			if al, ok := a.(*ssa.Alloc); ok && al != root {
				work = append(work, al)
			}
			break
		}
		a = fa.X
	}
	for len(work) > 0 {
		v := work[len(work)-1]
		work = work[:len(work)-1]
		if aliases[v] {
			continue
		}
		aliases[v] = true
		if refs := v.Referrers(); refs != nil {
			for _, r := range *refs {
				switch y := r.(type) {
				case *ssa.Phi:
					work = append(work, y)
				case *ssa.ChangeType:
					work = append(work, y)
				case *ssa.Call:
					if b, ok := y.Call.Value.(*ssa.Builtin); ok && b.Name() == "append" && len(y.Call.Args) > 0 && y.Call.Args[0] == v {
						work = append(work, y)
					}
				case *ssa.UnOp:
					if _, isAlloc := v.(*ssa.Alloc); isAlloc {
						work = append(work, y) // loads of the local slice variable
					}
				}
			}
		}
		if p, ok := v.(*ssa.Phi); ok {
			for _, ed := range p.Edges {
				if _, isConst := ed.(*ssa.Const); !isConst {
					work = append(work, ed)
				}
			}
		}
	}
	var sorts []*ssa.Call
	type use struct {
		in   ssa.Instruction
		what string
	}
	var uses []use
	for v := range aliases {
		if seen[v] {
			continue
		}
		seen[v] = true
		refs := v.Referrers()
		if refs == nil {
			continue
		}
		for _, r := range *refs {
			if li.body[h][r.Block().Index] {
				continue
			}
			switch y := r.(type) {
			case *ssa.DebugRef, *ssa.Phi, *ssa.ChangeType:
			case *ssa.Call:
				if b, ok := y.Call.Value.(*ssa.Builtin); ok && (b.Name() == "len" || b.Name() == "cap" || b.Name() == "append") {
					continue
				}
				if sc := y.Call.StaticCallee(); sc != nil && sortFuncs[sc.String()] {
					sorts = append(sorts, y)
					continue
				}
				uses = append(uses, use{y, "passed to " + e.snippetNode(y.Pos(), fn, nil)})
			case *ssa.MakeInterface:
				// sort.Slice(x, ...) / sort.Sort(sort.StringSlice(x)) take interfaces
				isSort := false
				if rr := y.Referrers(); rr != nil {
					for _, r2 := range *rr {
						if c2, ok := r2.(*ssa.Call); ok {
							if sc := c2.Call.StaticCallee(); sc != nil && sortFuncs[sc.String()] {
								sorts = append(sorts, c2)
								isSort = true
							}
						}
					}
				}
				if !isSort {
					uses = append(uses, use{y, "converted to an interface value"})
				}
			case *ssa.Return:
				uses = append(uses, use{y, "returned"})
			case *ssa.Store:
				if y.Val == v {
					uses = append(uses, use{y, "stored in " + e.snippetNode(y.Pos(), fn, nil)})
				}
			case *ssa.Range:
				uses = append(uses, use{y, "ranged over"})
			case *ssa.IndexAddr, *ssa.Index, *ssa.Slice:
				uses = append(uses, use{y.(ssa.Instruction), "indexed"})
			case *ssa.UnOp:
			case *ssa.MakeClosure:
				// captured by a comparator closure handed to sort.Slice & co: part of the sort itself
				onlySort := true
				if rr := y.Referrers(); rr != nil {
					for _, r2 := range *rr {
						if _, isDbg := r2.(*ssa.DebugRef); isDbg {
							continue
						}
						c2, ok := r2.(*ssa.Call)
						if !ok {
							onlySort = false
							continue
						}
						if sc := c2.Call.StaticCallee(); sc == nil || !sortFuncs[sc.String()] {
							onlySort = false
						}
					}
				}
				if !onlySort {
					uses = append(uses, use{y, "captured by a closure"})
				}
			default:
				uses = append(uses, use{r, fmt.Sprintf("used by %T", r)})
			}
		}
	}
	var out []string
	for _, u := range uses {
		ok := false
		for _, s := range sorts {
			if s.Block() == u.in.Block() {
				// same block: the sort must come first
				for _, in := range s.Block().Instrs {
					if in == ssa.Instruction(s) {
						ok = true
						break
					}
					if in == u.in {
						break
					}
				}
			} else if s.Block().Dominates(u.in.Block()) {
				ok = true
			}
		}
		if !ok {
			line := ""
			if p := u.in.Pos(); p.IsValid() {
				line = fmt.Sprintf(" (line %d)", e.prog.Fset.Position(p).Line)
			}
			out = append(out, "slice collected in map order is "+u.what+" without being sorted first"+line)
		}
	}
	return out
}


// accumulates: is this `addr = append(<load of the same location>, ...)` — i.e. growing the slice stored at addr?
func accumulates(call *ssa.Call, addr ssa.Value) bool {
	if len(call.Call.Args) == 0 {
		return false
	}
	ld, ok := call.Call.Args[0].(*ssa.UnOp)
	if !ok || ld.Op != token.MUL {
		return false
	}
	return sameAddr(ld.X, addr)
}

func sameAddr(a, b ssa.Value) bool {
	if a == b {
		return true
	}
	switch x := a.(type) {
	case *ssa.FieldAddr:
		if y, ok := b.(*ssa.FieldAddr); ok {
			return x.Field == y.Field && sameAddr(x.X, y.X)
		}
	case *ssa.UnOp:
		if y, ok := b.(*ssa.UnOp); ok && x.Op == token.MUL && y.Op == token.MUL {
			return sameAddr(x.X, y.X)
		}
	case *ssa.Call:
		// getters: x.GetA() twice on the same receiver
		if y, ok := b.(*ssa.Call); ok {
			sx, sy := x.Call.StaticCallee(), y.Call.StaticCallee()
			if sx != nil && sx == sy && len(x.Call.Args) == 1 && len(y.Call.Args) == 1 {
				return sameAddr(x.Call.Args[0], y.Call.Args[0])
			}
		}
	}
	return false
}


// unsortedUsesOutside: uses of a map-ordered slice value anywhere in the function (no loop to exclude).
func (e *Engine) unsortedUsesOutside(fn *ssa.Function, root ssa.Value) []string {
	li := &loopInfo{body: map[int]map[int]bool{-1: {}}}
	return e.unsortedUses(fn, li, -1, root, map[ssa.Value]bool{})
}

// comparesElements: does the comparator closure contain an ordering comparison whose two operands are elements of the
// same captured slice loaded at the two index parameters (x[i] OP x[j], possibly through a conversion)?
func comparesElements(less *ssa.Function) bool {
	if len(less.Params) != 2 {
		return false
	}
	elemOf := func(v ssa.Value) (ssa.Value, ssa.Value) { // (slice root, index) of a loaded element
		for {
			switch x := v.(type) {
			case *ssa.ChangeType:
				v = x.X
				continue
			case *ssa.Convert:
				v = x.X
				continue
			}
			break
		}
		u, ok := v.(*ssa.UnOp)
		if !ok || u.Op != token.MUL {
			return nil, nil
		}
		ia, ok := u.X.(*ssa.IndexAddr)
		if !ok {
			return nil, nil
		}
		root := ia.X
		if l, ok := root.(*ssa.UnOp); ok && l.Op == token.MUL {
			root = l.X // load of the captured slice variable
		}
		return root, ia.Index
	}
	for _, b := range less.Blocks {
		for _, in := range b.Instrs {
			bo, ok := in.(*ssa.BinOp)
			if !ok {
				continue
			}
			switch bo.Op {
			case token.LSS, token.GTR, token.LEQ, token.GEQ:
			default:
				continue
			}
			r1, i1 := elemOf(bo.X)
			r2, i2 := elemOf(bo.Y)
			if r1 == nil || r2 == nil || r1 != r2 {
				continue
			}
			p0, p1 := ssa.Value(less.Params[0]), ssa.Value(less.Params[1])
			if (i1 == p0 && i2 == p1) || (i1 == p1 && i2 == p0) {
				return true
			}
		}
	}
	return false
}

func (e *Engine) calleeLabel(c *ssa.Call) string {
	if sc := c.Call.StaticCallee(); sc != nil {
		return e.shortName(sc)
	}
	if c.Call.IsInvoke() {
		return c.Call.Method.Name()
	}
	return "a function value"
}
