package main

// detAnalysis: determinism typestate obligations (filled in below).
func (e *Engine) detAnalysis(funcs []string) []*Obligation {
	return nil
}
