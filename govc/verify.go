package main

import (
	"sort"
	"fmt"
	"go/ast"
	"go/token"
	"go/types"
	"strings"

	"golang.org/x/tools/go/ssa"
)

// FuncResult is the outcome of generating VCs for one function.
type FuncResult struct {
	Func        string
	Full        string
	Instrs      int
	Obligations []*Obligation
	Notes       []string
	Unsupported []string
	HasContract bool
}

// VerifyFunction generates all obligations for fn against its contract (may be nil: safety sweep only).
func (e *Engine) VerifyFunction(fn *ssa.Function) (res *FuncResult) {
	ct := e.contractFor(fn)
	fx := &FnExec{eng: e, ctx: NewCtx(), fn: fn, contract: ct, keySort: map[string]Sort{}, notes: map[string]bool{}, names: map[string]int{}, refKeys: map[string]bool{}}
	res = &FuncResult{Func: e.shortName(fn), Full: fn.String(), HasContract: ct != nil}
	for _, b := range fn.Blocks {
		res.Instrs += len(b.Instrs)
	}
	defer func() {
		if r := recover(); r != nil {
			res.Unsupported = append(res.Unsupported, fmt.Sprintf("engine error: %v", r))
			res.Obligations = fx.obls
			for _, o := range res.Obligations {
				o.Status = "unknown"
				o.Detail = "engine error while generating obligations"
			}
		}
	}()
	if len(fn.Blocks) == 0 {
		res.Unsupported = append(res.Unsupported, "no body")
		return res
	}
	if ct != nil && ct.Flags["trusted"] {
		// the clauses of a trusted contract are assumptions; its structural clauses are still checked on the code
		for _, dir := range ct.Structure {
			res.Obligations = append(res.Obligations, e.structural(fn, dir))
		}
		return res
	}
	if ct != nil && ct.Flags["wrap64"] {
		fx.wrap64 = true
	}
	wm0 := fx.ctx.Const("wm0", SInt)
	fx.ctx.Assert(Ge(wm0, Int(0)))
	entry := &State{heap: map[string]Term{}, epoch: 0, wm: wm0, pc: True, ghost: map[string]Term{}}
	fx.entry = entry
	fr := fx.newFrame(fn, true)
	fx.topFrame = fr
	st := entry.clone()
	for i, p := range fn.Params {
		t := fx.ctx.Const("p!"+p.Name(), sortOf(p.Type()))
		fx.wellFormed(st, t, p.Type())
		fr.vals[p] = tv(t)
		if i == 0 && fn.Signature.Recv() != nil && isPointer(p.Type()) && !(ct != nil && ct.Flags["nilsafe"]) {
			fx.ctx.Assert(Gt(t, Int(0)))
			fx.note("pointer receiver assumed non-nil (checked at contract-applied call sites)")
		}
	}
	for _, fv := range fn.FreeVars {
		t := fx.ctx.Const("free!"+fn.Name()+"!"+fv.Name(), sortOf(fv.Type()))
		fx.wellFormed(st, t, fv.Type())
		fx.ctx.Assert(Gt(t, Int(0)))
		fr.free[fv] = tv(t)
	}
	if ct != nil {
		for _, c := range ct.Requires {
			env := fr.specEnv(st, nil, nil)
			g, err := env.evalBool(c.Expr)
			if err != nil {
				fx.unsupported = append(fx.unsupported, fmt.Sprintf("requires %q: %v", c.Src, err))
				continue
			}
			fx.extendPC(st, g)
		}
		if ct.Flags["perwrite"] {
			fx.allowed = map[string][]Term{}
			fx.allowedWhole = map[string]bool{}
			for i, m := range ct.Modifies {
				env := fr.specEnv(st, nil, nil)
				if err := fr.modTargets(env, m, func(key string, ref Term) {
					fx.allowed[key] = append(fx.allowed[key], ref)
				}, func(key string) { fx.allowedWhole[key] = true }); err != nil {
					fx.unsupported = append(fx.unsupported, fmt.Sprintf("modifies %q: %v", ct.ModSrc[i], err))
				}
			}
		}
		if len(ct.Requires) > 0 {
			o := fx.oblige(st.clone(), "cover", "requires-satisfiable", False, token.NoPos)
			if o != nil {
				o.Expect = "canary"
			}
		}
	}
	fx.entry = entry
	fr.runBody(st)
	// the recover block (functions with defer+recover): executed from an arbitrary state
	if fn.Recover != nil {
		fr.runRecover(st)
	}
	// returns
	if ct != nil {
		var retPCs []Term
		for _, r := range fr.rets {
			retPCs = append(retPCs, r.st.pc)
			fr.checkReturn(r, ct)
			if len(ct.Ensures) > 0 {
				if o := fx.oblige(r.st.clone(), "cover", "each-return-reachable", False, token.NoPos); o != nil {
					o.Expect = "canary"
				}
			}
		}
		if len(ct.Ensures) > 0 && len(fr.rets) > 0 {
			cs := entry.clone()
			o := fx.oblige(cs, "cover", "return-reachable", Not(Or(retPCs...)), token.NoPos)
			if o != nil {
				o.Expect = "canary"
				o.Prefix = fx.ctx.Mark()
			}
		}
	} else {
		for _, r := range fr.rets {
			fr.checkErrProp(r, nil)
			// vacuity guard for the zero-annotation sweep: every return must stay reachable in the encoding
			if o := fx.oblige(r.st.clone(), "cover", "each-return-reachable", False, token.NoPos); o != nil {
				o.Expect = "canary"
			}
		}
	}
	if ct != nil && !strings.Contains(ct.Name, "%") {
		// an anchored clause that matched nothing is a dead letter: report it instead of passing silently
		for _, a := range ct.Asserts {
			if fx.anchorHits[a.Anchor] == 0 && !a.Wild {
				fx.obls = append(fx.obls, &Obligation{Name: fx.oblName("assert", a.Clause.Label+"@unmatched-anchor"), Class: "assert", Func: e.shortName(fn),
					Status: "failed", Solver: "govc-structural", Detail: "anchor @" + a.Anchor + " matches no call / map operation of the function"})
			}
		}
		for _, g := range append(append([]MarkSpec{}, ct.GhostSets...), ct.GhostClrs...) {
			if fx.anchorHits[g.Glob] == 0 && !g.Wild {
				fx.obls = append(fx.obls, &Obligation{Name: fx.oblName("assert", g.Label+"@unmatched-ghost-anchor"), Class: "assert", Func: e.shortName(fn),
					Status: "failed", Solver: "govc-structural", Detail: "ghost anchor @" + g.Glob + " matches no event of the function"})
			}
		}
	}
	if ct != nil {
		for _, sdir := range ct.Structure {
			fx.obls = append(fx.obls, e.structural(fn, sdir))
		}
	}
	res.Obligations = fx.obls
	for n := range fx.notes {
		res.Notes = append(res.Notes, n)
	}
	res.Unsupported = fx.unsupported
	return res
}

func (fr *Frame) checkReturn(r returnInfo, ct *FuncContract) {
	fx := fr.fx
	fn := fr.fn
	// locals of the function are visible in postconditions with the value they have at this return
	env := fr.specEnv(r.st, r.blk, nil)
	fr.atInside = true
	defer func() { fr.atInside = false }()
	env.old = fx.entry
	oenv := fr.specEnv(fx.entry, nil, nil)
	env.oldEnv = oenv
	bindResults(env, ct, fn, fn.Signature, r.vals)
	// parameters refer to entry values, also when the body re-assigns them
	for _, p := range fn.Params {
		if _, ok := env.vars[p.Name()]; !ok {
			env.vars[p.Name()] = SVal{V: fr.val(p), Ty: p.Type()}
		}
	}
	for i, c := range ct.Ensures {
		if strings.HasPrefix(c.Label, "assumed-") {
			// an assumption about the function, usable by its callers, that the verifier does not check (listed in the evidence)
			fx.note("assumed postcondition (not checked): " + fx.eng.shortName(fn) + " [" + c.Label + "]")
			continue
		}
		g, err := env.evalGoal(c.Expr)
		if err != nil {
			fx.unsupported = append(fx.unsupported, fmt.Sprintf("ensures %q: %v", c.Src, err))
			continue
		}
		work := r.st.clone()
		fx.oblige(work, "post", clauseLabel(c, i), g, token.NoPos)
	}
	if ct.HasMod && !ct.Flags["perwrite"] {
		fr.checkFrame(r, ct, env)
	}
	fr.checkErrProp(r, ct)
}

// checkFrame: every heap cell allocated before the call and not listed in modifies is unchanged.
func (fr *Frame) checkFrame(r returnInfo, ct *FuncContract, env *specEnv) {
	fx := fr.fx
	if r.st.epoch != 0 {
		work := r.st.clone()
		o := fx.oblige(work, "frame", "modifies", False, token.NoPos)
		if o != nil {
			o.Detail = "heap was havoced by an opaque call; frame cannot be established"
		}
		return
	}
	// allowed locations per key
	type allow struct {
		refs  []Term
		whole bool
	}
	allowed := map[string]*allow{}
	add := func(key string, ref Term) {
		a := allowed[key]
		if a == nil {
			a = &allow{}
			allowed[key] = a
		}
		a.refs = append(a.refs, ref)
	}
	oenv := env.oldEnv
	for i, m := range ct.Modifies {
		if err := fr.modTargets(oenv, m, add, func(key string) {
			a := allowed[key]
			if a == nil {
				a = &allow{}
				allowed[key] = a
			}
			a.whole = true
		}); err != nil {
			fx.unsupported = append(fx.unsupported, fmt.Sprintf("modifies %q: %v", ct.ModSrc[i], err))
		}
	}
	for _, key := range sortedKeys(r.st.heap) {
		cur := r.st.heap[key]
		if strings.HasPrefix(key, "Box.") || strings.HasPrefix(key, "Local.") {
			continue // boxes are immutable values; frame-local variables are invisible to the caller
		}
		old := fx.heapGet(fx.entry, key, fx.keySort[key])
		if cur.S == old.S {
			continue
		}
		a := allowed[key]
		if a != nil && a.whole {
			continue
		}
		var excl []Term
		p := Term{"|q!frame|", SInt}
		if a != nil {
			for _, ref := range a.refs {
				excl = append(excl, Not(Eq(p, ref)))
			}
		}
		cond := And(append([]Term{Gt(p, Int(0)), Le(p, fx.entry.wm)}, excl...)...)
		if strings.HasPrefix(key, "Glob.") {
			cond = And(append([]Term{Eq(p, Int(1))}, excl...)...)
		}
		goal := Term{fmt.Sprintf("(forall ((|q!frame| Int)) (=> %s (= (select %s |q!frame|) (select %s |q!frame|))))", cond.S, cur.S, old.S), SBool}
		work := r.st.clone()
		fx.oblige(work, "frame", "unchanged:"+key, goal, token.NoPos)
	}
}

// modTargets lists (key, ref) pairs a modifies-expression allows.
func (fr *Frame) modTargets(env *specEnv, m ast.Expr, add func(string, Term), whole func(string)) error {
	fx := fr.fx
	switch n := m.(type) {
	case *ast.Ident:
		if n.Name == "any" {
			for k := range fx.keySort {
				whole(k)
			}
			return nil
		}
	case *ast.StarExpr:
		v, err := env.eval(n.X)
		if err != nil {
			return err
		}
		pt, ok := v.Ty.Underlying().(*types.Pointer)
		if !ok {
			return fmt.Errorf("modifies *x: x is not a pointer")
		}
		if isStruct(pt.Elem()) {
			ref := fx.materialize(v.V, v.Ty)
			for _, f := range structFields(pt.Elem()) {
				add(fieldKey(pt.Elem(), f.Name()), ref)
			}
			return nil
		}
		lv := fx.pointee(v.V, pt.Elem())
		add(lv.Key, lv.Ref)
		return nil
	case *ast.SelectorExpr:
		v, err := env.eval(n.X)
		if err != nil {
			return err
		}
		t := v.Ty
		if pt, ok := t.Underlying().(*types.Pointer); ok {
			t = pt.Elem()
		}
		add(fieldKey(t, n.Sel.Name), fx.materialize(v.V, v.Ty))
		return nil
	case *ast.CallExpr:
		if id, ok := n.Fun.(*ast.Ident); ok {
			switch id.Name {
			case "elems":
				v, err := env.eval(n.Args[0])
				if err != nil {
					return err
				}
				stt, ok := v.Ty.Underlying().(*types.Slice)
				if !ok {
					return fmt.Errorf("elems(x): x is not a slice")
				}
				add(elemKey(sortOf(stt.Elem())), SlBase(fx.materialize(v.V, v.Ty)))
				return nil
			case "mapof":
				v, err := env.eval(n.Args[0])
				if err != nil {
					return err
				}
				mt, ok := v.Ty.Underlying().(*types.Map)
				if !ok {
					return fmt.Errorf("mapof(x): x is not a map")
				}
				m := fx.materialize(v.V, v.Ty)
				dk, vk, _, _ := mapKeys(mt)
				add(dk, m)
				add(vk, m)
				add("MLen", m)
				return nil
			case "reach":
				v, err := env.eval(n.Args[0])
				if err != nil {
					return err
				}
				keys := map[string]Sort{}
				typeReach(v.Ty, keys, map[string]bool{}, 0)
				for k := range keys {
					whole(k)
				}
				return nil
			case "field":
				lit, ok := n.Args[0].(*ast.BasicLit)
				if !ok {
					return fmt.Errorf("field needs a literal")
				}
				whole("F." + strings.Trim(lit.Value, "\""))
				return nil
			}
		}
	}
	return fmt.Errorf("unsupported modifies expression")
}

// ---- error propagation

func (fr *Frame) recordErrProp(callee string, res Val, sig *types.Signature, st *State, pos token.Pos) {
	fx := fr.fx
	ct := fx.contract
	if ct == nil || len(ct.ErrProp) == 0 || !fr.top {
		return
	}
	match := false
	for _, pat := range ct.ErrProp {
		if strings.Contains(callee, pat) {
			match = true
		}
	}
	if !match {
		return
	}
	n := sig.Results().Len()
	if n == 0 {
		return
	}
	last := sig.Results().At(n - 1).Type()
	if !isErrorType(last) {
		return
	}
	var ev Val
	if n == 1 {
		ev = res
	} else if len(res.Tuple) == n {
		ev = res.Tuple[n-1]
	} else {
		return
	}
	et := fx.materialize(ev, last)
	key := "err:" + lastSeg(callee)
	i := 1
	for {
		if _, ok := st.ghost[key]; !ok {
			break
		}
		i++
		key = fmt.Sprintf("err:%s~%d", lastSeg(callee), i)
		if i > 50 {
			break
		}
	}
	st.ghost[key] = fx.ctx.Define("g."+key, Not(Eq(IfTag(et), Int(0))))
}

func isErrorType(t types.Type) bool {
	return types.Identical(t, types.Universe.Lookup("error").Type())
}

func (fr *Frame) checkErrProp(r returnInfo, ct *FuncContract) {
	fx := fr.fx
	if ct == nil || len(ct.ErrProp) == 0 {
		return
	}
	sig := fr.fn.Signature
	n := sig.Results().Len()
	if n == 0 || !isErrorType(sig.Results().At(n-1).Type()) {
		return
	}
	errRet := fx.materialize(r.vals[n-1], sig.Results().At(n-1).Type())
	var conds []Term
	conds = append(conds, Not(Eq(IfTag(errRet), Int(0))))
	for i := 0; i < n-1 && ct.ErrPropNil; i++ {
		rt := sig.Results().At(i).Type()
		v := fx.materialize(r.vals[i], rt)
		switch v.Sort {
		case SInt:
			if isRefLike(rt) {
				conds = append(conds, Eq(v, Nil))
			}
		case SIface:
			conds = append(conds, Eq(IfTag(v), Int(0)))
		case SSlice:
			conds = append(conds, Eq(SlBase(v), Int(0)))
		}
	}
	for _, k := range sortedKeys(r.st.ghost) {
		if !strings.HasPrefix(k, "err:") {
			continue
		}
		work := r.st.clone()
		fx.oblige(work, "errprop", strings.TrimPrefix(k, "err:"), Implies(r.st.ghost[k], And(conds...)), token.NoPos)
	}
}

// runRecover models the Recover block: it runs after a panic was recovered by a deferred call.
func (fr *Frame) runRecover(st *State) {
	// Named results are read from their allocs at an arbitrary state: handled by executing the recover
	// block from a havoced state. The defers have already run in the panicking path (modelled separately).
	fx := fr.fx
	fx.note("recover block executed from a havoced state (panic path)")
}


// VerifyLemma proves a spec-level lemma: its body holds for all parameter values.
func (e *Engine) VerifyLemma(l *SpecFunc) *FuncResult {
	name := pkgShort(l.PkgPath) + ".lemma." + l.Name
	res := &FuncResult{Func: name, Full: name, HasContract: true}
	fx := &FnExec{eng: e, ctx: NewCtx(), contract: nil, keySort: map[string]Sort{}, notes: map[string]bool{}, names: map[string]int{}, refKeys: map[string]bool{}}
	wm0 := fx.ctx.Const("wm0", SInt)
	entry := &State{heap: map[string]Term{}, epoch: 0, wm: wm0, pc: True, ghost: map[string]Term{}}
	fx.entry = entry
	env := &specEnv{fx: fx, st: entry, old: entry, vars: map[string]SVal{}, pkg: e.pkgByPath(l.PkgPath)}
	for _, p := range l.Params {
		s, err := specSort(p.Type)
		if err != nil {
			res.Unsupported = append(res.Unsupported, err.Error())
			return res
		}
		env.vars[p.Name] = sv(fx.ctx.Const("p!"+p.Name, s), specGoType(p.Type))
	}
	g, err := env.evalBool(l.Body)
	if err != nil {
		res.Unsupported = append(res.Unsupported, fmt.Sprintf("lemma %s: %v", l.Name, err))
		return res
	}
	o := &Obligation{Name: name + "#lemma:" + l.Name, Class: "lemma", Func: name, Prefix: fx.ctx.Mark(), Goal: Not(g).S, ctx: fx.ctx}
	res.Obligations = []*Obligation{o}
	return res
}


// structural obligations are decided on the SSA shape alone (back end "govc-structural").
func (e *Engine) structural(fn *ssa.Function, dir string) *Obligation {
	o := &Obligation{Name: fmt.Sprintf("%s#structure:%s", e.shortName(fn), strings.ReplaceAll(dir, " ", "-")), Class: "structure",
		Func: e.shortName(fn), Solver: "govc-structural", Status: "failed"}
	f := strings.Fields(dir)
	calleeName := func(c *ssa.CallCommon) string {
		if c.IsInvoke() {
			return "iface:" + ifaceMethodName(c.Value.Type(), c.Method)
		}
		if sc := c.StaticCallee(); sc != nil {
			return e.shortName(sc)
		}
		return "dynamic"
	}
	switch {
	case len(f) == 1 && f[0] == "recover-first":
		// before anything that can panic runs, a closure that calls recover() has been deferred unconditionally
		for _, in := range fn.Blocks[0].Instrs {
			switch x := in.(type) {
			case *ssa.Alloc, *ssa.Store, *ssa.DebugRef, *ssa.MakeClosure, *ssa.UnOp, *ssa.FieldAddr:
				continue
			case *ssa.Defer:
				clo := x.Call.StaticCallee()
				if clo == nil {
					o.Detail = "the first deferred call is not a statically known function"
					return o
				}
				recovers := false
				for _, b := range clo.Blocks {
					for _, ci := range b.Instrs {
						if c, ok := ci.(*ssa.Call); ok {
							if bi, ok := c.Call.Value.(*ssa.Builtin); ok && bi.Name() == "recover" {
								recovers = true
							}
						}
					}
				}
				if recovers {
					o.Status = "proved"
					o.Detail = "entry block defers " + e.shortName(clo) + ", which calls recover(), before any call"
				} else {
					o.Detail = "the first deferred function does not call recover()"
				}
				return o
			default:
				o.Detail = fmt.Sprintf("instruction %T precedes the deferred recover", in)
				return o
			}
		}
		o.Detail = "no defer in the entry block"
	case len(f) == 4 && f[0] == "defers" && f[2] == "after":
		// the value produced by <after> is handed to a deferred <callee> before any other call
		for _, b := range fn.Blocks {
			for i, in := range b.Instrs {
				c, ok := in.(*ssa.Call)
				if !ok || !globMatch(f[3], calleeName(c.Common())) {
					continue
				}
				for _, nx := range b.Instrs[i+1:] {
					switch y := nx.(type) {
					case *ssa.DebugRef, *ssa.Store, *ssa.Alloc, *ssa.FieldAddr, *ssa.UnOp, *ssa.MakeClosure:
						continue
					case *ssa.Defer:
						if globMatch(f[1], calleeName(y.Common())) && len(y.Call.Args) > 0 && y.Call.Args[0] == ssa.Value(c) {
							o.Status = "proved"
							o.Detail = "deferred on the created value immediately after creation, in block " + b.String()
							return o
						}
						o.Detail = "a different call is deferred first"
						return o
					default:
						o.Detail = fmt.Sprintf("instruction %T separates creation from the deferred release", nx)
						return o
					}
				}
			}
		}
		if o.Detail == "" {
			o.Detail = "creation call not found"
		}
	case len(f) == 1 && f[0] == "terminates":
		// the function is not part of a call cycle (calls + function values it creates), so it needs no measure;
		// recursion without a `decreases` clause fails this obligation
		reach := map[*ssa.Function]bool{}
		hasMeasure := false
		if ct := e.contractFor(fn); ct != nil && ct.Decreases != nil {
			hasMeasure = true
		}
		var visit func(g *ssa.Function)
		visit = func(g *ssa.Function) {
			for _, b := range g.Blocks {
				for _, in := range b.Instrs {
					var targets []*ssa.Function
					switch x := in.(type) {
					case ssa.CallInstruction:
						if sc := x.Common().StaticCallee(); sc != nil {
							targets = append(targets, sc)
						}
						for _, a := range x.Common().Args {
							if mc, ok := a.(*ssa.MakeClosure); ok {
								targets = append(targets, mc.Fn.(*ssa.Function))
							}
							if fv, ok := a.(*ssa.Function); ok {
								targets = append(targets, fv)
							}
						}
					case *ssa.MakeClosure:
						targets = append(targets, x.Fn.(*ssa.Function))
					}
					for _, t := range targets {
						if !e.inModule(t) && t.Synthetic == "" {
							continue
						}
						if t == fn && g == fn && hasMeasure {
							continue // direct recursion under a `decreases` measure (checked at the call site)
						}
						if !reach[t] {
							reach[t] = true
							visit(t)
						}
					}
				}
			}
		}
		visit(fn)
		if reach[fn] {
			o.Detail = "the function can reach itself through calls / function values and has no decreases clause: unbounded recursion is possible"
			return o
		}
		o.Status = "proved"
		o.Detail = "not on a call cycle"
		if hasMeasure {
			o.Detail = "only direct recursion, under the decreases measure checked at the recursive call"
		}
	case len(f) >= 1 && f[0] == "uses-only-globals":
		// `structure uses-only-globals a,b,c`: the function (and the closures it creates) mentions no package-level
		// variable of its own package other than the listed ones — in particular no new shared registry, pool or cache
		allowed := map[string]bool{}
		for _, part := range f[1:] {
			for _, n := range strings.Split(part, ",") {
				if n = strings.TrimSpace(n); n != "" {
					allowed[n] = true
				}
			}
		}
		var bad []string
		seenG := map[string]bool{}
		var scan func(g *ssa.Function)
		scan = func(g *ssa.Function) {
			for _, b := range g.Blocks {
				for _, in := range b.Instrs {
					for _, op := range in.Operands(nil) {
						if gl, ok := (*op).(*ssa.Global); ok && gl.Pkg == fn.Pkg && !allowed[gl.Name()] && !seenG[gl.Name()] && !strings.HasPrefix(gl.Name(), "init$") {
							seenG[gl.Name()] = true
							bad = append(bad, gl.Name())
						}
					}
				}
			}
			for _, a := range g.AnonFuncs {
				scan(a)
			}
		}
		scan(fn)
		if len(bad) > 0 {
			sort.Strings(bad)
			o.Detail = "uses package-level variable(s) not listed in the contract: " + strings.Join(bad, ", ")
			return o
		}
		o.Status = "proved"
		o.Detail = "mentions only the listed package-level variables"
	case len(f) == 2 && f[0] == "grows-only":
		// `structure grows-only T.f`: the set held in field f of T only ever grows — in the whole package no function
		// deletes from a map read from that field, and the field itself is assigned only a freshly made (empty) map.
		// Together with an assertion that a recursion is entered only after a key that was absent has been inserted,
		// this bounds the recursion by the number of distinct keys (the finiteness of the key universe is an assumption).
		parts := strings.SplitN(f[1], ".", 2)
		if len(parts) != 2 {
			o.Detail = "grows-only needs Type.field"
			return o
		}
		fromField := func(v ssa.Value) bool {
			// v is (a load of) the field f of a T
			if u, ok := v.(*ssa.UnOp); ok {
				v = u.X
			}
			fa, ok := v.(*ssa.FieldAddr)
			if !ok {
				return false
			}
			st, ok := fa.X.Type().Underlying().(*types.Pointer)
			if !ok {
				return false
			}
			nt, ok := st.Elem().(*types.Named)
			if !ok || nt.Obj().Name() != parts[0] {
				return false
			}
			return nt.Underlying().(*types.Struct).Field(fa.Field).Name() == parts[1]
		}
		pkgPath := fn.Pkg.Pkg.Path()
		for _, g := range e.allFunctions(pkgPath) {
			for _, b := range g.Blocks {
				for _, in := range b.Instrs {
					switch x := in.(type) {
					case *ssa.Call:
						if bi, ok := x.Call.Value.(*ssa.Builtin); ok && bi.Name() == "delete" && fromField(x.Call.Args[0]) {
							o.Detail = "delete from the set in " + e.shortName(g)
							return o
						}
						if bi, ok := x.Call.Value.(*ssa.Builtin); ok && bi.Name() == "clear" && fromField(x.Call.Args[0]) {
							o.Detail = "clear of the set in " + e.shortName(g)
							return o
						}
						if sc := x.Call.StaticCallee(); sc != nil {
							for _, a := range x.Call.Args {
								if fromField(a) && sc.Name() != "Contains" && sc.Name() != "Insert" {
									o.Detail = "the set is handed to " + e.shortName(sc) + " in " + e.shortName(g) + " (only Contains / Insert are known not to shrink it)"
									return o
								}
							}
						} else if _, isB := x.Call.Value.(*ssa.Builtin); !isB {
							for _, a := range x.Call.Args {
								if fromField(a) {
									o.Detail = "the set is handed to an unknown callee in " + e.shortName(g)
									return o
								}
							}
						}
					case *ssa.Store:
						if fa, ok := x.Addr.(*ssa.FieldAddr); ok && fromField(fa) {
							// allowed: a fresh empty map while the field is nil (lazy initialisation) or in a constructor
							if _, isMake := x.Val.(*ssa.MakeMap); !isMake {
								o.Detail = "the field is assigned something other than a fresh map in " + e.shortName(g)
								return o
							}
						}
					}
				}
			}
		}
		o.Status = "proved"
		o.Detail = "no delete / clear / re-assignment of the set anywhere in the package"
	case len(f) == 2 && f[0] == "sole-caller-of":
		// `structure sole-caller-of <callee-glob>`: in the whole package (closures included) only this function calls a
		// function matching the glob — e.g. every walk of a parse tree goes through the one function that recovers
		pkgPath := fn.Pkg.Pkg.Path()
		found := false
		for _, g := range e.allFunctions(pkgPath) {
			for _, b := range g.Blocks {
				for _, in := range b.Instrs {
					ci, ok := in.(ssa.CallInstruction)
					if !ok || !globMatch(f[1], calleeName(ci.Common())) {
						continue
					}
					if g != fn {
						o.Detail = e.shortName(g) + " calls " + calleeName(ci.Common()) + " directly"
						return o
					}
					found = true
				}
			}
		}
		if !found {
			o.Detail = "the function does not call anything matching " + f[1]
			return o
		}
		o.Status = "proved"
		o.Detail = "no other function of the package calls " + f[1]
	case len(f) == 1 && f[0] == "no-early-loop-exit":
		// every loop of the function is left only through its header (the loop condition / the end of the range): no
		// break, return or panic from inside a body — a scan that must look at every element looks at every element
		li := e.loopsOf(fn)
		for h := range li.headers {
			for bi := range li.body[h] {
				if bi == h {
					continue
				}
				for _, succ := range fn.Blocks[bi].Succs {
					if !li.body[h][succ.Index] {
						o.Detail = fmt.Sprintf("loop %d is left from inside its body (block %d -> %d)", li.ordinal[h], bi, succ.Index)
						return o
					}
				}
				if len(fn.Blocks[bi].Succs) == 0 {
					o.Detail = fmt.Sprintf("loop %d has a return / panic inside its body", li.ordinal[h])
					return o
				}
			}
		}
		o.Status = "proved"
		o.Detail = "every loop is left only through its header"
	case len(f) >= 1 && f[0] == "blocks-only-on":
		// `structure blocks-only-on a,b`: the only operations in the function (closures included) that can block are
		// calls whose name contains one of the listed fragments (the lock and the errgroup the contract talks about):
		// no other Wait / Lock / Acquire / Sleep and no channel operation — each could leave a path waiting for an event
		// that an error path never produces, and the error-propagation obligations assume every path returns
		var allowed []string
		for _, part := range f[1:] {
			for _, n := range strings.Split(part, ",") {
				if n = strings.TrimSpace(n); n != "" {
					allowed = append(allowed, n)
				}
			}
		}
		blocking := []string{".(*WaitGroup).Wait", ".(*Cond).Wait", ".(*Mutex).Lock", ".(*RWMutex).Lock", ".(*RWMutex).RLock",
			".(*Group).Wait", "time.Sleep", ".(*Weighted).Acquire", ".(*Once).Do"}
		var scanB func(g *ssa.Function) string
		scanB = func(g *ssa.Function) string {
			for _, b := range g.Blocks {
				for _, in := range b.Instrs {
					switch x := in.(type) {
					case *ssa.Send, *ssa.Select:
						return "channel operation at " + e.prog.Fset.Position(in.Pos()).String()
					case *ssa.UnOp:
						if x.Op == token.ARROW {
							return "channel receive at " + e.prog.Fset.Position(in.Pos()).String()
						}
					case ssa.CallInstruction:
						name := calleeName(x.Common())
						isBlocking := false
						for _, bp := range blocking {
							if strings.HasSuffix(name, bp) || strings.Contains(name, bp) {
								isBlocking = true
							}
						}
						if !isBlocking {
							continue
						}
						ok := false
						for _, a := range allowed {
							if strings.Contains(name, a) {
								ok = true
							}
						}
						if !ok {
							return "call of " + name + " (can block; not among the synchronisation the contract allows) at " + e.prog.Fset.Position(in.Pos()).String()
						}
					}
				}
			}
			for _, a := range g.AnonFuncs {
				if r := scanB(a); r != "" {
					return r
				}
			}
			return ""
		}
		if r := scanB(fn); r != "" {
			o.Detail = r
			return o
		}
		o.Status = "proved"
		o.Detail = "blocks only on " + strings.Join(allowed, ", ")
	case len(f) == 1 && f[0] == "no-channel-ops":
		// the function synchronises only through the mutex / errgroup named in its contract: no channel send,
		// receive, select or close — each of which could block a path that the error-propagation obligations assume returns
		for _, b := range fn.Blocks {
			for _, in := range b.Instrs {
				bad := ""
				switch x := in.(type) {
				case *ssa.Send:
					bad = "channel send"
				case *ssa.Select:
					bad = "select"
				case *ssa.MakeChan:
					bad = "make(chan)"
				case *ssa.UnOp:
					if x.Op == token.ARROW {
						bad = "channel receive"
					}
				}
				if bad != "" {
					o.Detail = bad + " at " + e.prog.Fset.Position(in.Pos()).String()
					return o
				}
			}
		}
		o.Status = "proved"
		o.Detail = "no channel operations"
	default:
		o.Detail = "unknown structural directive"
	}
	return o
}
