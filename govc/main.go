package main

import (
	"flag"
	"fmt"
	"os"
	"sort"
	"strings"
	"time"
)

func main() {
	if len(os.Args) < 2 {
		fmt.Fprintln(os.Stderr, "usage: govc <verify|check|...>")
		os.Exit(2)
	}
	switch os.Args[1] {
	case "verify":
		cmdVerify(os.Args[2:])
	case "check":
		cmdCheck(os.Args[2:])
	case "selfcheck":
		cmdSelfcheck()
	case "det":
		cmdDet(os.Args[2:])
	case "lint":
		cmdLint(os.Args[2:])
	default:
		fmt.Fprintln(os.Stderr, "unknown subcommand")
		os.Exit(2)
	}
}

// verify: developer command — generate and discharge obligations of named functions.
func cmdVerify(args []string) {
	fs := flag.NewFlagSet("verify", flag.ExitOnError)
	repo := fs.String("repo", "/repo", "repository root")
	specs := fs.String("specs", "/verif/specs", "trusted specs dir")
	pkgs := fs.String("pkgs", "", "comma-separated package patterns")
	funcs := fs.String("funcs", "", "comma-separated short names (pkg.Func); empty = all functions with contracts")
	timeout := fs.Int("timeout", 10, "per-obligation timeout (s)")
	dump := fs.String("dump", "", "dump SMT of obligations whose name contains this")
	verbose := fs.Bool("v", false, "verbose")
	all := fs.Bool("all", false, "all functions of the packages (safety sweep)")
	fs.Parse(args)
	t0 := time.Now()
	eng, err := LoadEngine(*repo, strings.Split(*pkgs, ","), *specs)
	if err != nil {
		fmt.Fprintln(os.Stderr, "load:", err)
		os.Exit(2)
	}
	fmt.Fprintf(os.Stderr, "loaded in %.1fs\n", time.Since(t0).Seconds())
	want := map[string]bool{}
	for _, f := range strings.Split(*funcs, ",") {
		if f != "" {
			want[f] = true
		}
	}
	dir, _ := os.MkdirTemp("", "govc")
	defer os.RemoveAll(dir)
	var paths []string
	for p := range eng.spkgs {
		if strings.HasPrefix(p, modulePath) {
			paths = append(paths, p)
		}
	}
	sort.Strings(paths)
	for _, p := range paths {
		for _, fn := range eng.allFunctions(p) {
			sn := eng.shortName(fn)
			if len(want) > 0 {
				if !want[sn] {
					continue
				}
			} else if !*all && eng.contractFor(fn) == nil {
				continue
			}
			if ct := eng.contractFor(fn); ct != nil && ct.Flags["trusted"] {
				continue
			}
			res := eng.VerifyFunction(fn)
			DischargeAll(res.Obligations, dir, *timeout, 8)
			fmt.Printf("== %s (%d instrs, %d obligations)\n", res.Func, res.Instrs, len(res.Obligations))
			seenU := map[string]bool{}
			for _, u := range res.Unsupported {
				if !seenU[u] {
					seenU[u] = true
					if len(u) > 400 {
						u = u[:150] + " ... " + u[len(u)-220:]
					}
					fmt.Printf("   UNSUPPORTED %s\n", u)
				}
			}
			if *verbose {
				for _, n := range res.Notes {
					fmt.Printf("   note: %s\n", n)
				}
			}
			for _, o := range res.Obligations {
				mark := o.Status
				if o.Expect == "canary" {
					mark += " (canary)"
				}
				if *verbose || o.Status != "proved" {
					fmt.Printf("   %-8s %-10s %s  [%s %dms] %s %s\n", mark, o.Class, o.Name, o.Solver, o.TimeMS, o.Pos, o.Detail)
				}
				if pat := strings.TrimPrefix(*dump, "="); *dump != "" && ((strings.HasPrefix(*dump, "=") && strings.HasSuffix(o.Name, pat)) || (!strings.HasPrefix(*dump, "=") && strings.Contains(o.Name, pat))) {
					os.WriteFile("/tmp/dump.smt2", []byte(o.SMT()), 0o644)
					fmt.Printf("   dumped to /tmp/dump.smt2\n")
					if o.Model != "" {
						fmt.Println(o.Model)
					}
				}
			}
		}
	}
}



// selfcheck: the back ends answer, and the contract parser accepts / rejects what it should.
func cmdSelfcheck() {
	dir, _ := os.MkdirTemp("", "govc-self")
	defer os.RemoveAll(dir)
	ctx := NewCtx()
	x := ctx.Const("x", SInt)
	mk := func(goal string) *Obligation {
		return &Obligation{Name: "self", ctx: ctx, Prefix: ctx.Mark(), Goal: goal}
	}
	bad := 0
	for _, s := range solvers {
		saved := solvers
		solvers = []solverSpec{s}
		o1 := mk("(and (> " + x.S + " 0) (< " + x.S + " 0))")
		Discharge(o1, dir, 1, 10)
		o2 := mk("(> " + x.S + " 0)")
		Discharge(o2, dir, 2, 10)
		solvers = saved
		if o1.Status != "proved" || o2.Status != "failed" {
			fmt.Fprintf(os.Stderr, "selfcheck: solver %s misbehaves (unsat query: %s, sat query: %s)\n", s.name, o1.Status, o2.Status)
			bad++
		}
	}
	if _, err := parseClauseExpr("a ==> forall(i, 0, len(s), s[i] > 0 ==> ok(i))"); err != nil {
		fmt.Fprintln(os.Stderr, "selfcheck: contract parser:", err)
		bad++
	}
	if _, err := parseClauseExpr("a ==> ("); err == nil {
		fmt.Fprintln(os.Stderr, "selfcheck: contract parser accepted garbage")
		bad++
	}
	if bad >= len(solvers) {
		os.Exit(1)
	}
	fmt.Println("govc selfcheck ok")
}


// det: developer command — list determinism obligations of matching functions.
func cmdDet(args []string) {
	fs := flag.NewFlagSet("det", flag.ExitOnError)
	pkgs := fs.String("pkgs", "./...", "packages")
	pats := fs.String("funcs", "", "comma-separated function patterns (pkg.* allowed)")
	fs.Parse(args)
	eng, err := LoadEngine("/repo", strings.Split(*pkgs, ","), "/verif/specs")
	if err != nil {
		fmt.Fprintln(os.Stderr, err)
		os.Exit(2)
	}
	for _, o := range eng.detAnalysis(strings.Split(*pats, ",")) {
		fmt.Printf("%-7s %s  %s\n      %s\n", o.Status, o.Name, o.Pos, o.Detail)
	}
}

// lint: developer command — contracts in the repository's contract files that match no function of their package
// (a misspelt name is a contract that is silently never checked).
func cmdLint(args []string) {
	fs := flag.NewFlagSet("lint", flag.ExitOnError)
	pkgs := fs.String("pkgs", "./pkg/...,./cmd/...", "packages")
	fs.Parse(args)
	eng, err := LoadEngine("/repo", strings.Split(*pkgs, ","), "/verif/specs")
	if err != nil {
		fmt.Fprintln(os.Stderr, err)
		os.Exit(2)
	}
	used := map[*FuncContract]bool{}
	for p := range eng.spkgs {
		if !strings.HasPrefix(p, modulePath) {
			continue
		}
		for _, fn := range eng.allFunctions(p) {
			if ct := eng.contractFor(fn); ct != nil {
				used[ct] = true
			}
		}
	}
	var names []string
	for k, ct := range eng.contracts.Funcs {
		if ct.PkgPath == "" || used[ct] || ct.mergedWild || strings.Contains(ct.Name, "%") || strings.HasPrefix(ct.Name, "iface:") || strings.Contains(ct.Name, "/") || strings.HasPrefix(ct.Name, "lemma.") {
			continue
		}
		if _, loaded := eng.spkgs[ct.PkgPath]; !loaded {
			continue
		}
		names = append(names, k)
	}
	sort.Strings(names)
	for _, n := range names {
		fmt.Println("contract matches no function:", n)
	}
	fmt.Printf("%d unmatched\n", len(names))
}
