package main

import (
	"fmt"
	"os"
	"go/ast"
	"go/token"
	"go/types"
	"strings"

	"golang.org/x/tools/go/ssa"
)

const maxInlineInstrs = 80
const maxInlineDepth = 4

func (fr *Frame) call(c *ssa.CallCommon, instr *ssa.Call, st *State, pos token.Pos) Val {
	name := "dynamic"
	if b, ok := c.Value.(*ssa.Builtin); ok {
		name = "builtin:" + b.Name()
	} else if c.IsInvoke() {
		name = "iface:" + ifaceMethodName(c.Value.Type(), c.Method)
	} else if sc := c.StaticCallee(); sc != nil {
		name = fr.fx.eng.shortName(sc)
	} else if fv := fr.val(c.Value); fv.Fn != nil {
		name = fr.fx.eng.shortName(fv.Fn)
	}
	var blk *ssa.BasicBlock
	if instr != nil {
		blk = instr.Block()
	}
	fr.anchoredAsserts(name, c, st, pos, blk)
	res := fr.call1(c, instr, st, pos)
	if fr.top && fr.fx.contract != nil {
		fr.ghostAnchors("call:"+name, st)
		for _, m := range fr.fx.contract.Marks {
			if globMatch(m.Glob, name) {
				if fr.fx.markCnt == nil {
					fr.fx.markCnt = map[string]int{}
					fr.fx.marks = map[string]*State{}
					fr.fx.markRes = map[string]SVal{}
				}
				fr.fx.markCnt[m.Label]++
				if fr.fx.markCnt[m.Label] == m.N {
					fr.fx.marks[m.Label] = st.clone()
					var rt types.Type = c.Signature().Results()
					if c.Signature().Results().Len() == 1 {
						rt = c.Signature().Results().At(0).Type()
					}
					fr.fx.markRes[m.Label] = SVal{V: res, Ty: rt}
				}
			}
		}
	}
	fr.recordErrProp(name, res, c.Signature(), st, pos)
	return res
}

func (fr *Frame) call1(c *ssa.CallCommon, instr *ssa.Call, st *State, pos token.Pos) Val {
	fx := fr.fx
	var resTy types.Type = c.Signature().Results()
	if c.Signature().Results().Len() == 1 {
		resTy = c.Signature().Results().At(0).Type()
	}
	// interface method invocation
	if c.IsInvoke() {
		recv := fr.val(c.Value)
		var args []Val
		args = append(args, recv)
		for _, a := range c.Args {
			args = append(args, fr.val(a))
		}
		rt := fx.materialize(recv, c.Value.Type())
		fx.oblige(st, "panic", fr.siteLabel("nil-iface-call", pos, instr), Not(Eq(IfTag(rt), Int(0))), pos)
		name := "iface:" + ifaceMethodName(c.Value.Type(), c.Method)
		if ct := fx.eng.contracts.Funcs["::"+name]; ct != nil {
			return fr.applyContract(ct, nil, c.Method.Type().(*types.Signature), name, args, nil, st, pos, instr)
		}
		keys, any := fx.eng.invokeMods(c)
		fr.havocKeys(name, keys, any, st)
		return fx.freshVal(st, "ret."+c.Method.Name(), resTy)
	}
	// builtins
	if b, ok := c.Value.(*ssa.Builtin); ok {
		return fr.builtin(b, c, instr, st, pos)
	}
	var args []Val
	for _, a := range c.Args {
		args = append(args, fr.val(a))
	}
	callee := c.StaticCallee()
	var binds []Val
	fv := fr.val(c.Value)
	if callee == nil && fv.Fn != nil {
		callee = fv.Fn
	}
	if callee != nil {
		if mc, ok := c.Value.(*ssa.MakeClosure); ok {
			for _, b := range mc.Bindings {
				binds = append(binds, fr.val(b))
			}
		} else if fv.Fn == callee {
			binds = fv.Bind
		}
		return fr.staticCall(callee, args, binds, st, pos, instr, resTy)
	}
	// dynamic call through a function value
	if p, ok := c.Value.(*ssa.Parameter); ok && fr.top && fx.contract != nil {
		if fs := fx.contract.FnSpecs[p.Name()]; fs != nil {
			fr.fnspecOuter = true
			defer func() { fr.fnspecOuter = false }()
			return fr.applyContract(fs, nil, c.Signature(), fx.eng.shortName(fx.fn)+"/"+p.Name(), args, nil, st, pos, instr)
		}
	}
	fvT := fx.materialize(fv, c.Value.Type())
	fx.oblige(st, "panic", fr.siteLabel("nil-func-call", pos, instr), Not(Eq(fvT, Nil)), pos)
	fr.opaqueCall("dynamic call", nil, args, c.Signature(), st, true)
	return fx.freshVal(st, "ret.dyn", resTy)
}

func ifaceMethodName(t types.Type, m *types.Func) string {
	if nt, ok := t.(*types.Named); ok && nt.Obj() != nil && nt.Obj().Pkg() != nil {
		return nt.Obj().Pkg().Path() + "." + nt.Obj().Name() + "." + m.Name()
	}
	if nt, ok := t.(*types.Named); ok && nt.Obj() != nil {
		return nt.Obj().Name() + "." + m.Name() // error.Error
	}
	return typeKey(t) + "." + m.Name()
}

func (fr *Frame) staticCall(callee *ssa.Function, args, binds []Val, st *State, pos token.Pos, instr *ssa.Call, resTy types.Type) Val {
	fx := fr.fx
	full := callee.String()
	// intrinsics
	if v, ok := fr.intrinsic(full, callee, args, st, pos, instr, resTy); ok {
		return v
	}
	ct := fx.eng.contractFor(callee)
	lo := st.wm
	if ct != nil && !(ct.Flags["inline"]) {
		r := fr.applyContract(ct, callee, callee.Signature, fx.eng.shortName(callee), args, binds, st, pos, instr)
		if fr.top && instr != nil && ct.Flags["pure"] && fx.eng.isPrivateSite(instr) {
			fx.notePrivate(st, lo, st.wm)
		}
		return r
	}
	if fx.canInline(callee) {
		if res, ok := fx.inlineCall(fr, callee, args, binds, st); ok {
			if fr.top && instr != nil && fx.eng.allocOnly(callee, 0) && fx.eng.isPrivateSite(instr) {
				fx.notePrivate(st, lo, st.wm)
			}
			return packResults(res, callee.Signature)
		}
	}
	fr.opaqueCall(fx.eng.shortName(callee), callee, args, callee.Signature, st, false)
	return fx.freshVal(st, "ret."+callee.Name(), resTy)
}

func packResults(res []Val, sig *types.Signature) Val {
	switch sig.Results().Len() {
	case 0:
		return Val{Known: true}
	case 1:
		return res[0]
	}
	return Val{Tuple: res, Known: true}
}

func (fx *FnExec) canInline(fn *ssa.Function) bool {
	if len(fn.Blocks) == 0 {
		return false
	}
	if !fx.eng.inModule(fn) {
		return false
	}
	if len(fx.inlineStack) >= maxInlineDepth {
		return false
	}
	for _, f := range fx.inlineStack {
		if f == fn {
			return false
		}
	}
	if fn == fx.fn {
		return false
	}
	li := fx.eng.loopsOf(fn)
	if len(li.headers) > 0 || li.irreducible {
		return false
	}
	n := 0
	for _, b := range fn.Blocks {
		n += len(b.Instrs)
		for _, in := range b.Instrs {
			switch in.(type) {
			case *ssa.Go, *ssa.Select, *ssa.Send:
				return false
			}
		}
	}
	if fn.Recover != nil {
		return false
	}
	return n <= maxInlineInstrs
}

// inlineCall executes callee in the caller's context.
func (fx *FnExec) inlineCall(parent *Frame, callee *ssa.Function, args, binds []Val, st *State) ([]Val, bool) {
	if len(args) != len(callee.Params) {
		return nil, false
	}
	fr := fx.newFrame(callee, false)
	site := fx.eng.shortName(callee)
	if parent != nil && parent.site != "" {
		site = parent.site + ">" + site
	}
	fr.site = site
	for i, p := range callee.Params {
		fr.vals[p] = args[i]
	}
	for i, fv := range callee.FreeVars {
		if i < len(binds) {
			fr.free[fv] = binds[i]
		}
	}
	fx.inlineStack = append(fx.inlineStack, callee)
	fr.runBody(st)
	fx.inlineStack = fx.inlineStack[:len(fx.inlineStack)-1]
	if len(fr.rets) == 0 {
		st.pc = False
		var res []Val
		for i := 0; i < callee.Signature.Results().Len(); i++ {
			res = append(res, fx.freshVal(st, "noret", callee.Signature.Results().At(i).Type()))
		}
		return res, true
	}
	var sts []*State
	var guards []Term
	for _, r := range fr.rets {
		sts = append(sts, r.st)
		guards = append(guards, r.st.pc)
	}
	merged := fx.mergeStates(sts)
	var res []Val
	for i := 0; i < callee.Signature.Results().Len(); i++ {
		var vs []Val
		for _, r := range fr.rets {
			vs = append(vs, r.vals[i])
		}
		res = append(res, fx.mergeVals(guards, vs, callee.Signature.Results().At(i).Type()))
	}
	*st = *merged
	return res, true
}

// pureCall evaluates a function on a scratch state, discarding its obligations.
func (fx *FnExec) pureCall(fn *ssa.Function, args []Val, st *State) ([]Val, bool) {
	if !fx.canInline(fn) {
		return nil, false
	}
	scratch := st.clone()
	nob := len(fx.obls)
	saved := map[string]int{}
	for k, v := range fx.names {
		saved[k] = v
	}
	res, ok := fx.inlineCall(nil, fn, args, nil, scratch)
	fx.obls = fx.obls[:nob]
	fx.names = saved
	return res, ok
}

// ---- contract application

func sigParamNames(sig *types.Signature, fn *ssa.Function, ct *FuncContract) []string {
	var names []string
	if fn != nil {
		for _, p := range fn.Params {
			names = append(names, p.Name())
		}
		return names
	}
	if len(ct.Params) > 0 {
		return ct.Params
	}
	if sig.Recv() != nil {
		n := sig.Recv().Name()
		if n == "" {
			n = "recv"
		}
		names = append(names, n)
	}
	for i := 0; i < sig.Params().Len(); i++ {
		n := sig.Params().At(i).Name()
		if n == "" || n == "_" {
			n = fmt.Sprintf("arg%d", i)
		}
		names = append(names, n)
	}
	return names
}

func sigParamTypes(sig *types.Signature, fn *ssa.Function, nargs int) []types.Type {
	var tys []types.Type
	if fn != nil {
		for _, p := range fn.Params {
			tys = append(tys, p.Type())
		}
		return tys
	}
	if sig.Recv() != nil && nargs == sig.Params().Len()+1 {
		tys = append(tys, sig.Recv().Type())
	}
	for i := 0; i < sig.Params().Len(); i++ {
		tys = append(tys, sig.Params().At(i).Type())
	}
	return tys
}

func (fr *Frame) contractEnv(ct *FuncContract, fn *ssa.Function, sig *types.Signature, args, binds []Val, st *State) *specEnv {
	fx := fr.fx
	env := &specEnv{fx: fx, fr: nil, st: st, old: st, vars: map[string]SVal{}}
	if fn != nil && fn.Pkg != nil {
		env.pkg = fn.Pkg.Pkg
	} else if fn != nil && fn.Parent() != nil {
		p := fn.Parent()
		for p.Parent() != nil {
			p = p.Parent()
		}
		if p.Pkg != nil {
			env.pkg = p.Pkg.Pkg
		}
	}
	if ct.PkgPath != "" {
		if p := fx.eng.pkgByPath(ct.PkgPath); p != nil {
			env.pkg = p
		}
	}
	if env.pkg == nil && fr.fn.Pkg != nil {
		env.pkg = fr.fn.Pkg.Pkg
	}
	if fr.fnspecOuter {
		// a fnspec is written in the scope of the enclosing function: its parameters are visible
		for _, p := range fr.fn.Params {
			env.vars[p.Name()] = SVal{V: fr.val(p), Ty: p.Type()}
		}
	}
	names := sigParamNames(sig, fn, ct)
	tys := sigParamTypes(sig, fn, len(args))
	// interface invoke passes receiver first without sig.Recv
	if len(names) == len(args)-1 {
		names = append([]string{"recv"}, names...)
		tys = append([]types.Type{nil}, tys...)
	}
	for i, a := range args {
		if i < len(names) {
			var ty types.Type
			if i < len(tys) {
				ty = tys[i]
			}
			env.vars[names[i]] = SVal{V: a, Ty: ty}
			env.vars[fmt.Sprintf("arg%d", i)] = SVal{V: a, Ty: ty}
		}
	}
	if fn != nil {
		for i, fv := range fn.FreeVars {
			if i < len(binds) {
				b := binds[i]
				if pt, ok := fv.Type().Underlying().(*types.Pointer); ok && !isStruct(pt.Elem()) && !isArray(pt.Elem()) {
					lv := fx.pointee(b, pt.Elem())
					env.vars[fv.Name()] = sv(fx.readLV(st, lv), pt.Elem())
				} else {
					env.vars[fv.Name()] = SVal{V: b, Ty: fv.Type()}
				}
			}
		}
	}
	return env
}

func (fr *Frame) applyContract(ct *FuncContract, fn *ssa.Function, sig *types.Signature, name string, args, binds []Val, st *State, pos token.Pos, instr *ssa.Call) Val {
	fx := fr.fx
	fx.eng.usedContract(fx, ct)
	env := fr.contractEnv(ct, fn, sig, args, binds, st)
	site := name
	if fr.site != "" {
		site = fr.site + ">" + name
	}
	if fn != nil && fn.Signature.Recv() != nil && isPointer(fn.Signature.Recv().Type()) && !ct.Flags["nilsafe"] && len(args) > 0 && args[0].LV == nil && fx.eng.inModule(fn) {
		fx.oblige(st, "pre", site+".receiver-nonnil", Not(Eq(fx.materialize(args[0], fn.Signature.Recv().Type()), Nil)), pos)
	}
	for i, c := range ct.Requires {
		g, err := env.evalGoal(c.Expr)
		if err != nil {
			fx.unsupported = append(fx.unsupported, fmt.Sprintf("precondition %q of %s: %v", c.Src, name, err))
			continue
		}
		fx.oblige(st, "pre", site+"."+clauseLabel(c, i), g, pos)
	}
	// recursion: the measure of the callee's arguments is non-negative and smaller than the caller's own measure
	if fn != nil && fn == fx.fn && fr.top && ct.Decreases != nil && fx.entry != nil {
		mc, err1 := env.evalTerm(ct.Decreases.Expr)
		own := fr.specEnv(fx.entry, nil, nil)
		me, err2 := own.evalTerm(ct.Decreases.Expr)
		if err1 != nil || err2 != nil {
			fx.unsupported = append(fx.unsupported, fmt.Sprintf("decreases %q: %v %v", ct.Decreases.Src, err1, err2))
		} else {
			fx.oblige(st, "decreases", "recursion", And(Ge(mc, Int(0)), Lt(mc, me)), pos)
		}
	}
	// function-typed arguments must refine the fnspec
	if fn != nil {
		for i, p := range fn.Params {
			if fs := ct.FnSpecs[p.Name()]; fs != nil && i < len(args) && args[i].Fn != nil {
				fr.checkFnRefinement(fs, ct, args[i], env, st, pos, site+"."+p.Name())
			}
		}
	}
	pre := st.clone()
	// effects
	fr.applyEffects(ct, fn, sig, args, env, st, name)
	// results
	nres := sig.Results().Len()
	var res []Val
	for i := 0; i < nres; i++ {
		rt := sig.Results().At(i).Type()
		if ct.Flags["deterministic"] && (nres == 1 || sortOf(rt) != SIface) {
			ufName := name
			if nres > 1 {
				ufName = fmt.Sprintf("%s#%d", name, i) // one uninterpreted function per result
			}
			r := fx.pureUF(ufName, args, sigParamTypes(sig, fn, len(args)), rt)
			fx.wellFormed(st, r, rt)
			res = append(res, tv(r))
			continue
		}
		rv := fx.freshVal(st, "ret."+lastSeg(name), rt)
		if ct.Flags["fresh"] {
			t := fx.materialize(rv, rt)
			if t.Sort == SInt {
				r := fx.alloc(st)
				rv = tv(r)
			}
		}
		res = append(res, rv)
	}
	// postconditions
	penv := fr.contractEnv(ct, fn, sig, args, binds, st)
	penv.old = pre
	oenv := fr.contractEnv(ct, fn, sig, args, binds, pre)
	penv.oldEnv = oenv
	bindResults(penv, ct, fn, sig, res)
	for _, c := range ct.Ensures {
		if ct.Flags["deterministic"] && !ct.Flags["reveal"] && !ct.Flags["trusted"] {
			break // callers see a deterministic in-module function only as an uninterpreted function of its arguments
		}
		if strings.Contains(c.Src, "at(\"") || strings.Contains(c.Src, "ghost(") {
			// speaks about a program point / an event flag inside the callee: checked there, meaningless to the caller
			// (the caller's ghost flags of the same name are different flags)
			continue
		}
		g, err := penv.evalBool(c.Expr)
		if err != nil && strings.Contains(err.Error(), "unknown identifier") {
			continue // speaks about a local of the callee's body: checked there, not expressible at the call
		}
		if err != nil {
			fx.unsupported = append(fx.unsupported, fmt.Sprintf("postcondition %q of %s: %v", c.Src, name, err))
			continue
		}
		fx.extendPC(st, g)
	}
	return packResults(res, sig)
}

func lastSeg(s string) string {
	if i := strings.LastIndexAny(s, "./"); i >= 0 {
		return s[i+1:]
	}
	return s
}

func bindResults(env *specEnv, ct *FuncContract, fn *ssa.Function, sig *types.Signature, res []Val) {
	for i, r := range res {
		rt := sig.Results().At(i).Type()
		env.vars[fmt.Sprintf("result%d", i)] = SVal{V: r, Ty: rt}
		if i == 0 {
			env.vars["result"] = SVal{V: r, Ty: rt}
		}
		if n := sig.Results().At(i).Name(); n != "" && n != "_" {
			env.vars[n] = SVal{V: r, Ty: rt}
		}
		if i < len(ct.Results) {
			env.vars[ct.Results[i]] = SVal{V: r, Ty: rt}
		}
	}
}

// checkFnRefinement: a closure passed for a function-typed parameter must accept whatever the fnspec promises.
func (fr *Frame) checkFnRefinement(fs *FuncContract, outer *FuncContract, clo Val, outerEnv *specEnv, st *State, pos token.Pos, label string) {
	fx := fr.fx
	cfn := clo.Fn
	cct := fx.eng.contractFor(cfn)
	if cct == nil {
		if len(fs.Requires) > 0 {
			fx.unsupported = append(fx.unsupported, fmt.Sprintf("closure %s passed for %s has no contract", cfn.Name(), label))
		}
		return
	}
	// fresh arguments
	var args []Val
	for _, p := range cfn.Params {
		args = append(args, fx.freshVal(st, "fnarg."+p.Name(), p.Type()))
	}
	// fnspec env: its params by declared names, plus the outer call's bindings
	fenv := outerEnv.child()
	names := fs.Params
	for i, a := range args {
		if i < len(names) {
			fenv.vars[names[i]] = SVal{V: a, Ty: cfn.Params[i].Type()}
		}
		fenv.vars[fmt.Sprintf("arg%d", i)] = SVal{V: a, Ty: cfn.Params[i].Type()}
	}
	var pres []Term
	for _, c := range fs.Requires {
		g, err := fenv.evalBool(c.Expr)
		if err != nil {
			fx.unsupported = append(fx.unsupported, fmt.Sprintf("fnspec %s: %v", label, err))
			return
		}
		pres = append(pres, g)
	}
	cenv := fr.contractEnv(cct, cfn, cfn.Signature, args, clo.Bind, st)
	for i, c := range cct.Requires {
		g, err := cenv.evalBool(c.Expr)
		if err != nil {
			fx.unsupported = append(fx.unsupported, fmt.Sprintf("closure contract %s: %v", cfn.Name(), err))
			continue
		}
		work := st.clone()
		fx.extendPC(work, And(pres...))
		fx.oblige(work, "pre", label+".fnspec."+clauseLabel(c, i), g, pos)
	}
}

// applyEffects havocs what the callee may modify.
func (fr *Frame) applyEffects(ct *FuncContract, fn *ssa.Function, sig *types.Signature, args []Val, env *specEnv, st *State, name string) {
	fx := fr.fx
	if ct.Flags["noeffect"] || ct.Flags["deterministic"] {
		return
	}
	if ct.Flags["pure"] {
		// writes only to objects it allocates itself
		w := fx.ctx.Fresh("wm", SInt)
		fx.ctx.Assert(Ge(w, st.wm))
		st.wm = w
		return
	}
	if ct.HasMod {
		if fx.perWrite() {
			for i, m := range ct.Modifies {
				err := fr.modTargets(env, m, func(key string, ref Term) {
					fx.oblige(st, "frame", "callee-writes:"+lastSeg(name)+"."+ct.ModSrc[i], fx.writeAllowed(ref, key), token.NoPos)
				}, func(key string) {
					if !fx.allowedWhole[key] {
						fx.oblige(st, "frame", "callee-writes:"+lastSeg(name)+"."+ct.ModSrc[i], False, token.NoPos)
					}
				})
				if err != nil {
					fx.unsupported = append(fx.unsupported, fmt.Sprintf("modifies %q of %s: %v", ct.ModSrc[i], name, err))
				}
			}
		}
		// every modifies-expression denotes a location of the pre-call state (s.f, elems(s.f): the elements of the
		// slice s.f held before the call), so they are all evaluated against a snapshot taken before the first havoc
		penv := env.child()
		penv.st = st.clone()
		for i, m := range ct.Modifies {
			if err := fr.havocLoc(penv, m, st); err != nil {
				fx.unsupported = append(fx.unsupported, fmt.Sprintf("modifies %q of %s: %v", ct.ModSrc[i], name, err))
				fx.newEpoch(st)
			}
		}
		if fn == nil || fx.eng.mayAlloc(fn) {
			w := fx.ctx.Fresh("wm", SInt)
			fx.ctx.Assert(Ge(w, st.wm))
			st.wm = w
		}
		return
	}
	fr.opaqueCall(name, fn, args, sig, st, false)
}

// havocLoc havocs the location denoted by a modifies-expression.
func (fr *Frame) havocLoc(env *specEnv, m ast.Expr, st *State) error {
	fx := fr.fx
	switch n := m.(type) {
	case *ast.Ident:
		if n.Name == "any" {
			fx.newEpoch(st)
			return nil
		}
	case *ast.StarExpr:
		v, err := env.eval(n.X)
		if err != nil {
			return err
		}
		pt, ok := v.Ty.Underlying().(*types.Pointer)
		if !ok {
			return fmt.Errorf("modifies *x: x is not a pointer")
		}
		if isStruct(pt.Elem()) {
			ref := fx.materialize(v.V, v.Ty)
			for _, f := range structFields(pt.Elem()) {
				if isStruct(f.Type()) || isArray(f.Type()) {
					continue
				}
				s := sortOf(f.Type())
				lv := &LV{Key: fieldKey(pt.Elem(), f.Name()), Ref: ref, Sort: s}
				nv := fx.ctx.Fresh("mod."+f.Name(), s)
				fx.writeLV(st, lv, nv)
				fx.wellFormedLater(st, nv, f.Type())
			}
			return nil
		}
		lv := fx.pointee(v.V, pt.Elem())
		nv := fx.ctx.Fresh("mod", lv.Sort)
		fx.writeLV(st, lv, nv)
		fx.wellFormedLater(st, nv, pt.Elem())
		return nil
	case *ast.SelectorExpr:
		v, err := env.eval(n.X)
		if err != nil {
			return err
		}
		t := v.Ty
		if pt, ok := t.Underlying().(*types.Pointer); ok {
			t = pt.Elem()
		}
		for _, f := range structFields(t) {
			if f.Name() == n.Sel.Name {
				s := sortOf(f.Type())
				lv := &LV{Key: fieldKey(t, f.Name()), Ref: fx.materialize(v.V, v.Ty), Sort: s}
				nv := fx.ctx.Fresh("mod."+f.Name(), s)
				fx.writeLV(st, lv, nv)
				fx.wellFormedLater(st, nv, f.Type())
				return nil
			}
		}
		return fmt.Errorf("no field %s", n.Sel.Name)
	case *ast.CallExpr:
		if id, ok := n.Fun.(*ast.Ident); ok {
			switch id.Name {
			case "elems":
				v, err := env.eval(n.Args[0])
				if err != nil {
					return err
				}
				stt, ok := v.Ty.Underlying().(*types.Slice)
				if !ok {
					return fmt.Errorf("elems(x): x is not a slice")
				}
				es := sortOf(stt.Elem())
				inner := ArraySort(SInt, es)
				key := elemKey(es)
				arr := fx.heapGet(st, key, ArraySort(SInt, inner))
				fx.heapSet(st, key, Store(arr, SlBase(fx.materialize(v.V, v.Ty)), fx.ctx.Fresh("mod.elems", inner)))
				return nil
			case "mapof":
				v, err := env.eval(n.Args[0])
				if err != nil {
					return err
				}
				mt, ok := v.Ty.Underlying().(*types.Map)
				if !ok {
					return fmt.Errorf("mapof(x): x is not a map")
				}
				m := fx.materialize(v.V, v.Ty)
				dk, vk, ks, vs := mapKeys(mt)
				dom := fx.heapGet(st, dk, ArraySort(SInt, ArraySort(ks, SBool)))
				fx.heapSet(st, dk, Store(dom, m, fx.ctx.Fresh("mod.dom", ArraySort(ks, SBool))))
				val := fx.heapGet(st, vk, ArraySort(SInt, ArraySort(ks, vs)))
				fx.heapSet(st, vk, Store(val, m, fx.ctx.Fresh("mod.val", ArraySort(ks, vs))))
				fx.mapLenSet(st, m, fx.ctx.Fresh("mod.len", SInt))
				return nil
			case "reach":
				v, err := env.eval(n.Args[0])
				if err != nil {
					return err
				}
				keys := map[string]Sort{}
				typeReach(v.Ty, keys, map[string]bool{}, 0)
				for _, k := range sortedKeys(keys) {
					if _, ok := fx.keySort[k]; !ok {
						fx.keySort[k] = keys[k]
					}
					st.heap[k] = fx.ctx.Fresh("mod."+k, fx.keySort[k])
				}
				return nil
			case "field":
				// field("T.f"): whole field array
				lit, ok := n.Args[0].(*ast.BasicLit)
				if !ok {
					return fmt.Errorf("field needs a literal")
				}
				key := "F." + strings.Trim(lit.Value, `"`)
				if s, ok := fx.keySort[key]; ok {
					st.heap[key] = fx.ctx.Fresh("mod."+key, s)
				} else {
					fx.eng.deferredHavoc(fx, st, key)
				}
				return nil
			}
		}
	}
	return fmt.Errorf("unsupported modifies expression")
}

func (fx *FnExec) wellFormedLater(st *State, v Term, t types.Type) { fx.wellFormed(st, v, t) }

// opaqueCall havocs the heap according to the inferred mod-set of the callee.
func (fr *Frame) opaqueCall(name string, fn *ssa.Function, args []Val, sig *types.Signature, st *State, dynamic bool) {
	keys, any := fr.fx.eng.calleeModSet(fn, sig, dynamic)
	if fx := fr.fx; fx.perWrite() {
		// a function whose writes are justified one by one cannot call code whose effects are unknown
		bad := any
		for k := range keys {
			if !strings.HasPrefix(k, "Local.") && !fx.allowedWhole[k] {
				bad = true
			}
		}
		if bad {
			if o := fx.oblige(st.clone(), "frame", "opaque-call:"+lastSeg(name), False, token.NoPos); o != nil {
				o.Detail = "the callee has no contract and may write memory that exists already"
			}
		}
	}
	fr.havocKeys(name, keys, any, st)
	if !any {
		// locations passed by address may be written by the callee
		for _, a := range args {
			if a.LV != nil {
				fr.fx.writeLV(st, a.LV, fr.fx.ctx.Fresh("byaddr", a.LV.Sort))
			}
		}
	}
}

func (fr *Frame) havocKeys(name string, keys map[string]Sort, any bool, st *State) {
	fx := fr.fx
	if len(keys) > 0 {
		filtered := map[string]Sort{}
		for k, s := range keys {
			if strings.HasPrefix(k, "Local.") && !fx.eng.ownsLocal(fr.fn, k) {
				continue
			}
			filtered[k] = s
		}
		keys = filtered
	}
	if any {
		fx.note("opaque call havocs the whole heap: " + name)
		fx.newEpoch(st)
		for _, k := range sortedKeys(keys) {
			if strings.HasPrefix(k, "Local.") {
				if _, ok := fx.keySort[k]; !ok {
					fx.keySort[k] = keys[k]
				}
				st.heap[k] = fx.ctx.Fresh("Hcall."+k, fx.keySort[k])
			}
		}
		return
	}
	if len(keys) > 0 {
		fx.note("opaque call havocs its inferred mod-set: " + name)
	}
	for _, k := range sortedKeys(keys) {
		if _, ok := fx.keySort[k]; !ok {
			fx.keySort[k] = keys[k]
		}
		old := fx.heapGet(st, k, fx.keySort[k])
		st.heap[k] = fx.ctx.Fresh("Hcall."+k, fx.keySort[k])
		fx.preserveFacts(k, st.heap[k], old, st.priv)
	}
	w := fx.ctx.Fresh("wm", SInt)
	fx.ctx.Assert(Ge(w, st.wm))
	st.wm = w
}

// ---- builtins

func (fr *Frame) builtin(b *ssa.Builtin, c *ssa.CallCommon, instr *ssa.Call, st *State, pos token.Pos) Val {
	fx := fr.fx
	var args []Val
	for _, a := range c.Args {
		args = append(args, fr.val(a))
	}
	var resTy types.Type
	if instr != nil {
		resTy = instr.Type()
	}
	switch b.Name() {
	case "len", "cap":
		t := fx.materialize(args[0], c.Args[0].Type())
		switch t.Sort {
		case SString:
			return tv(Term{"(str.len " + t.S + ")", SInt})
		case SSlice:
			if b.Name() == "cap" {
				return tv(SlCap(t))
			}
			return tv(SlLen(t))
		}
		if isMap(c.Args[0].Type()) {
			l := fx.ctx.Define("maplen", Ite(Eq(t, Nil), Int(0), fx.mapLen(st, t)))
			fx.assume(st, Ge(l, Int(0)))
			return tv(l)
		}
		if pt, ok := c.Args[0].Type().Underlying().(*types.Pointer); ok {
			if at, ok := pt.Elem().Underlying().(*types.Array); ok {
				return tv(Int(at.Len()))
			}
		}
		if at, ok := c.Args[0].Type().Underlying().(*types.Array); ok {
			return tv(Int(at.Len()))
		}
		r := fx.ctx.Fresh("len", SInt)
		fx.assume(st, Ge(r, Int(0)))
		return tv(r)
	case "append":
		return fr.appendOp(c, args, st, pos)
	case "delete":
		mt := c.Args[0].Type().Underlying().(*types.Map)
		m := fx.materialize(args[0], c.Args[0].Type())
		k := fx.materialize(args[1], mt.Key())
		dk, _, ks, _ := mapKeys(mt)
		domS := ArraySort(ks, SBool)
		dom := fx.heapGet(st, dk, ArraySort(SInt, domS))
		was := And(Not(Eq(m, Nil)), Select(Select(dom, m, domS), k, SBool))
		ln := fx.mapLen(st, m)
		fx.frameWriteGuarded(st, m, dk, was, pos, fr)
		fx.mapLenSet(st, m, Ite(was, Sub(ln, Int(1)), ln))
		fx.heapSet(st, dk, Ite(Eq(m, Nil), dom, Store(dom, m, Store(Select(dom, m, domS), k, False))))
		return Val{Known: true}
	case "copy":
		dt := c.Args[0].Type().Underlying().(*types.Slice)
		d := fx.materialize(args[0], c.Args[0].Type())
		es := sortOf(dt.Elem())
		inner := ArraySort(SInt, es)
		key := elemKey(es)
		arr := fx.heapGet(st, key, ArraySort(SInt, inner))
		fx.frameWrite(st, SlBase(d), key, pos, fr)
		if _, isSl := c.Args[1].Type().Underlying().(*types.Slice); isSl && !isStruct(dt.Elem()) {
			// exact model: n = min(len(dst), len(src)) elements move (memmove semantics: the source is read first)
			src := fx.materialize(args[1], c.Args[1].Type())
			n := fx.ctx.Define("copy.n", Ite(Lt(SlLen(d), SlLen(src)), SlLen(d), SlLen(src)))
			dArr := Select(arr, SlBase(d), inner)
			sArr := Select(arr, SlBase(src), inner)
			na := fx.ctx.Fresh("copy.new", inner)
			qi := smtIdent(fmt.Sprintf("q!j!%d", fx.ctx.nfresh))
			fx.ctx.Assert(Term{fmt.Sprintf("(forall ((%s Int)) (= (select %s %s) (ite (and (<= %s %s) (< %s (+ %s %s))) (select %s (+ %s (- %s %s))) (select %s %s))))",
				qi, na.S, qi, SlOff(d).S, qi, qi, SlOff(d).S, n.S, sArr.S, SlOff(src).S, qi, SlOff(d).S, dArr.S, qi), SBool})
			fx.heapSet(st, key, Store(arr, SlBase(d), na))
			return tv(n)
		}
		fx.heapSet(st, key, Store(arr, SlBase(d), fx.ctx.Fresh("copy", inner)))
		fx.note("builtin copy: destination elements havoced")
		r := fx.ctx.Fresh("copied", SInt)
		fx.assume(st, And(Ge(r, Int(0)), Le(r, SlLen(d))))
		return tv(r)
	case "print", "println":
		return Val{Known: true}
	case "recover":
		fr.recovered = true
		r := fx.ctx.Fresh("recovered", SIface)
		fx.wellFormed(st, r, types.NewInterfaceType(nil, nil))
		st.ghost["recovered"] = fx.ctx.Define("g.recovered", Not(Eq(IfTag(r), Int(0))))
		return tv(r)
	case "min", "max":
		a := fx.materialize(args[0], nil)
		for _, o := range args[1:] {
			bt := fx.materialize(o, nil)
			if b.Name() == "min" {
				a = Ite(Lt(a, bt), a, bt)
			} else {
				a = Ite(Gt(a, bt), a, bt)
			}
		}
		return tv(a)
	case "ssa:wrapnilchk":
		t := fx.materialize(args[0], c.Args[0].Type())
		fx.oblige(st, "panic", fr.siteLabel("nil-deref", pos, instr), Not(Eq(t, Nil)), pos)
		return args[0]
	case "close":
		return Val{Known: true}
	}
	if resTy != nil {
		return fx.freshVal(st, "builtin."+b.Name(), resTy)
	}
	return Val{Known: true}
}

func (fx *FnExec) frameWriteGuarded(st *State, ref Term, key string, guard Term, pos token.Pos, fr *Frame) {
	if strings.HasPrefix(key, "Local.") {
		return
	}
	if fx.perWrite() {
		label := "fresh-write"
		if fr != nil && fr.site != "" {
			label += "@" + fr.site
		}
		fx.oblige(st, "frame", label+":"+fx.eng.snippetNode(pos, fx.fn, nil), Implies(guard, fx.writeAllowed(ref, key)), pos)
	}
}

// appendOp models append exactly: in place when capacity suffices, otherwise a fresh backing array.
func (fr *Frame) appendOp(c *ssa.CallCommon, args []Val, st *State, pos token.Pos) Val {
	fx := fr.fx
	stT, ok := c.Args[0].Type().Underlying().(*types.Slice)
	if !ok {
		return fx.freshVal(st, "append", c.Args[0].Type())
	}
	s := fx.ctx.Define("app.s", fx.materialize(args[0], c.Args[0].Type()))
	et := stT.Elem()
	es := sortOf(et)
	inner := ArraySort(SInt, es)
	key := elemKey(es)
	if sortOf(c.Args[1].Type()) == SString {
		// append([]byte, string...)
		r := fx.alloc(st)
		arr := fx.heapGet(st, key, ArraySort(SInt, inner))
		fx.heapSet(st, key, Store(arr, r, fx.ctx.Fresh("appstr", inner)))
		nl := Add(SlLen(s), Term{"(str.len " + fx.materialize(args[1], c.Args[1].Type()).S + ")", SInt})
		cp := fx.ctx.Fresh("cap", SInt)
		fx.assume(st, Ge(cp, nl))
		return tv(fx.ctx.Define("appended", MkSlice(r, Int(0), nl, cp)))
	}
	t := fx.ctx.Define("app.t", fx.materialize(args[1], c.Args[1].Type()))
	// static element count?
	k := -1
	if sl, ok := c.Args[1].(*ssa.Slice); ok && sl.Low == nil && sl.High == nil {
		if al, ok := sl.X.(*ssa.Alloc); ok {
			if at, ok := al.Type().(*types.Pointer).Elem().Underlying().(*types.Array); ok && at.Len() <= 6 {
				k = int(at.Len())
			}
		}
	}
	if cst, ok := c.Args[1].(*ssa.Const); ok && cst.Value == nil {
		k = 0
	}
	arr := fx.heapGet(st, key, ArraySort(SInt, inner))
	n := SlLen(t)
	if k >= 0 {
		n = Int(int64(k))
	}
	newLen := fx.ctx.Define("app.len", Add(SlLen(s), n))
	fits := fx.ctx.Define("app.fits", Le(newLen, SlCap(s)))
	if k == 0 {
		return tv(s)
	}
	// frame: in-place append writes into the existing backing array
	if fx.perWrite() {
		label := "fresh-write"
		if fr.site != "" {
			label += "@" + fr.site
		}
		fx.oblige(st, "frame", label+":"+fx.eng.snippetNode(pos, fr.fn, nil), Implies(And(fits, Gt(n, Int(0))), fx.writeAllowed(SlBase(s), key)), pos)
	}
	fresh := fx.alloc(st)
	newCap := fx.ctx.Fresh("app.cap", SInt)
	fx.assume(st, Ge(newCap, newLen))
	// element values to append
	srcArr := Select(arr, SlBase(t), inner)
	elemAt := func(j Term) Term {
		v := Select(srcArr, Add(SlOff(t), j), es)
		return v
	}
	sArr := Select(arr, SlBase(s), inner)
	var inplace, realloc Term
	if k > 0 {
		// struct elements: each appended slot gets a fresh object
		vals := make([]Term, k)
		for j := 0; j < k; j++ {
			vals[j] = elemAt(Int(int64(j)))
		}
		if isStruct(et) {
			for j := 0; j < k; j++ {
				obj := fx.alloc(st)
				fx.copyStruct(st, obj, vals[j], et, 0)
				vals[j] = obj
			}
			arr = fx.heapGet(st, key, ArraySort(SInt, inner))
			sArr = Select(arr, SlBase(s), inner)
		}
		ip := sArr
		for j := 0; j < k; j++ {
			ip = Store(ip, Add(Add(SlOff(s), SlLen(s)), Int(int64(j))), vals[j])
		}
		inplace = ip
		na := fx.ctx.Fresh("app.new", inner)
		qi := smtIdent(fmt.Sprintf("q!j!%d", fx.ctx.nfresh))
		fx.ctx.Assert(Term{fmt.Sprintf("(forall ((%s Int)) (=> (and (<= 0 %s) (< %s %s)) (= (select %s %s) (select %s (+ %s %s)))))",
			qi, qi, qi, SlLen(s).S, na.S, qi, sArr.S, SlOff(s).S, qi), SBool})
		for j := 0; j < k; j++ {
			fx.ctx.Assert(Eq(Select(na, Add(SlLen(s), Int(int64(j))), es), vals[j]))
		}
		realloc = na
	} else {
		// symbolic count: quantified description
		ipA := fx.ctx.Fresh("app.inplace", inner)
		qi := smtIdent(fmt.Sprintf("q!j!%d", fx.ctx.nfresh))
		end := Add(SlOff(s), SlLen(s))
		fx.ctx.Assert(Term{fmt.Sprintf("(forall ((%s Int)) (= (select %s %s) (ite (and (<= %s %s) (< %s (+ %s %s))) (select %s (+ %s (- %s %s))) (select %s %s))))",
			qi, ipA.S, qi, end.S, qi, qi, end.S, n.S, srcArr.S, SlOff(t).S, qi, end.S, sArr.S, qi), SBool})
		inplace = ipA
		na := fx.ctx.Fresh("app.new", inner)
		qj := smtIdent(fmt.Sprintf("q!j!%d", fx.ctx.nfresh))
		fx.ctx.Assert(Term{fmt.Sprintf("(forall ((%s Int)) (=> (and (<= 0 %s) (< %s %s)) (= (select %s %s) (ite (< %s %s) (select %s (+ %s %s)) (select %s (+ %s (- %s %s)))))))",
			qj, qj, qj, newLen.S, na.S, qj, qj, SlLen(s).S, sArr.S, SlOff(s).S, qj, srcArr.S, SlOff(t).S, qj, SlLen(s).S), SBool})
		realloc = na
		if isStruct(et) {
			fx.note("append of struct slices with symbolic count: element objects shared (imprecise)")
		}
	}
	fx.frozenCheck(st, s, fits, n, pos, fr)
	newArr := Ite(fits, Store(arr, SlBase(s), inplace), Store(arr, fresh, realloc))
	fx.heapSet(st, key, newArr)
	res := Ite(fits, MkSlice(SlBase(s), SlOff(s), newLen, SlCap(s)), MkSlice(fresh, Int(0), newLen, newCap))
	return tv(fx.ctx.Define("appended", res))
}

// frozenCheck: writing into cells of a slice value that was frozen (stored into a longer-lived object).
func (fx *FnExec) frozenCheck(st *State, s Term, fits Term, n Term, pos token.Pos, fr *Frame) {
	fz, ok := st.ghost["frozen.base"]
	_ = fz
	if !ok {
		return
	}
}

// ---- defers

// blockReaches: is `to` reachable from `from` in the CFG?
func blockReaches(from, to *ssa.BasicBlock) bool {
	seen := map[int]bool{}
	var stack []*ssa.BasicBlock
	stack = append(stack, from)
	for len(stack) > 0 {
		b := stack[len(stack)-1]
		stack = stack[:len(stack)-1]
		if b == to {
			return true
		}
		if seen[b.Index] {
			continue
		}
		seen[b.Index] = true
		stack = append(stack, b.Succs...)
	}
	return false
}

// runDefers executes, in reverse order, the deferred calls that were registered on the current path.
func (fr *Frame) runDefers(st *State, at *ssa.BasicBlock) {
	for i := len(fr.defers) - 1; i >= 0; i-- {
		d := fr.defers[i]
		if d.Block() != at && !blockReaches(d.Block(), at) {
			continue // this defer statement cannot have executed on a path to this return
		}
		if d.Block() == at || d.Block().Dominates(at) {
			fr.runDefer(i, st)
			continue
		}
		// registered on some paths only: run it under its registration condition
		with := st.clone()
		fr.fx.extendPC(with, fr.deferPCs[i])
		without := st.clone()
		fr.fx.extendPC(without, Not(fr.deferPCs[i]))
		fr.runDefer(i, with)
		merged := fr.fx.mergeStates([]*State{with, without})
		*st = *merged
	}
}

func (fr *Frame) runDefer(i int, st *State) {
	fx := fr.fx
	{
		d := fr.defers[i]
		vs := fr.deferVals[i]
		c := d.Common()
		if c.IsInvoke() {
			fr.opaqueCall("deferred invoke", nil, vs, c.Signature(), st, true)
			return
		}
		if _, ok := c.Value.(*ssa.Builtin); ok {
			return
		}
		callee := c.StaticCallee()
		if callee == nil && vs[0].Fn != nil {
			callee = vs[0].Fn
		}
		if callee == nil {
			fr.opaqueCall("deferred dynamic call", nil, vs[1:], c.Signature(), st, true)
			return
		}
		var binds []Val
		if mc, ok := c.Value.(*ssa.MakeClosure); ok {
			for _, b := range mc.Bindings {
				binds = append(binds, fr.val(b))
			}
		}
		var resTy types.Type = c.Signature().Results()
		fr.staticCall(callee, vs[1:], binds, st, d.Pos(), nil, resTy)
		_ = fx
	}
}


// intrinsic: library functions modelled directly (none beyond specs at present).
// intrinsic: library functions modelled by the engine itself. The sort package: the elements of the slice are
// rearranged — every new element is one of the old ones and every old element is still there (membership in both
// directions; multiplicities are not modelled), the rest of the backing array is untouched, and sort.Strings /
// sort.Ints leave the slice ascending. The comparison closure of sort.Slice is assumed to be a side-effect-free
// total order.
func (fr *Frame) intrinsic(full string, callee *ssa.Function, args []Val, st *State, pos token.Pos, instr *ssa.Call, resTy types.Type) (Val, bool) {
	fx := fr.fx
	switch full {
	case "sort.Slice", "sort.SliceStable", "sort.Strings", "sort.Ints":
	default:
		return Val{}, false
	}
	if instr == nil || len(instr.Call.Args) == 0 {
		return Val{}, false
	}
	var sv ssa.Value = instr.Call.Args[0]
	slv := args[0]
	if mi, ok := sv.(*ssa.MakeInterface); ok {
		sv = mi.X
		slv = fr.val(mi.X)
	}
	stT, ok := sv.Type().Underlying().(*types.Slice)
	if !ok || isStruct(stT.Elem()) {
		return Val{}, false
	}
	s := fx.materialize(slv, sv.Type())
	es := sortOf(stT.Elem())
	inner := ArraySort(SInt, es)
	key := elemKey(es)
	arr := fx.heapGet(st, key, ArraySort(SInt, inner))
	fx.frameWriteGuarded(st, SlBase(s), key, Gt(SlLen(s), Int(1)), pos, fr)
	oldA := fx.ctx.Define("sort.old", Select(arr, SlBase(s), inner))
	newA := fx.ctx.Fresh("sort.new", inner)
	off, ln := SlOff(s), SlLen(s)
	n := fx.ctx.nfresh
	qi, qj := smtIdent(fmt.Sprintf("q!si!%d", n)), smtIdent(fmt.Sprintf("q!sj!%d", n))
	rng := func(q string) string { return fmt.Sprintf("(and (<= 0 %s) (< %s %s))", q, q, ln.S) }
	at := func(a Term, q string) string { return fmt.Sprintf("(select %s (+ %s %s))", a.S, off.S, q) }
	fx.ctx.Assert(Term{fmt.Sprintf("(forall ((%s Int)) (=> %s (exists ((%s Int)) (and %s (= %s %s)))))", qi, rng(qi), qj, rng(qj), at(newA, qi), at(oldA, qj)), SBool})
	fx.ctx.Assert(Term{fmt.Sprintf("(forall ((%s Int)) (=> %s (exists ((%s Int)) (and %s (= %s %s)))))", qi, rng(qi), qj, rng(qj), at(oldA, qi), at(newA, qj)), SBool})
	qk := smtIdent(fmt.Sprintf("q!sk!%d", n))
	fx.ctx.Assert(Term{fmt.Sprintf("(forall ((%s Int)) (=> (or (< %s %s) (>= %s (+ %s %s))) (= (select %s %s) (select %s %s))))", qk, qk, off.S, qk, off.S, ln.S, newA.S, qk, oldA.S, qk), SBool})
	if full == "sort.Strings" || full == "sort.Ints" {
		le := "<="
		if es == SString {
			le = "str.<="
		}
		fx.ctx.Assert(Term{fmt.Sprintf("(forall ((%s Int) (%s Int)) (=> (and (<= 0 %s) (< %s %s) (< %s %s)) (%s %s %s)))", qi, qj, qi, qi, qj, qj, ln.S, le, at(newA, qi), at(newA, qj)), SBool})
	}
	fx.heapSet(st, key, Store(arr, SlBase(s), newA))
	return Val{Known: true}, true
}

func isIntrinsicPure(full string) bool { return false }

var _ = ast.NewIdent


// pureUF: the result of a pure (deterministic, heap-independent) function as an uninterpreted function of its arguments.
func (fx *FnExec) pureUF(name string, args []Val, tys []types.Type, rt types.Type) Term {
	var ss []Sort
	var ts []Term
	for j, a := range args {
		var ty types.Type
		if j < len(tys) {
			ty = tys[j]
		}
		t := fx.materialize(a, ty)
		ss = append(ss, t.Sort)
		ts = append(ts, t)
	}
	uf := fx.ctx.DeclFun("fn!"+name, ss, sortOf(rt))
	return App(sortOf(rt), uf, ts...)
}


// anchoredAsserts checks `assert @call:<glob> expr` clauses of the function under verification at a call site.
// In expr, arg0..argN are the actual arguments (arg0 = receiver of an interface call) and `it` ranges over the
// string-typed arguments (one obligation per string argument).
func (fr *Frame) anchoredAsserts(name string, c *ssa.CallCommon, st *State, pos token.Pos, blk *ssa.BasicBlock) {
	fx := fr.fx
	if !fr.top || fx.contract == nil || len(fx.contract.Asserts) == 0 {
		return
	}
	for _, a := range fx.contract.Asserts {
		if !strings.HasPrefix(a.Anchor, "call:") {
			continue
		}
		pat := strings.TrimPrefix(a.Anchor, "call:")
		if !globMatch(pat, name) {
			continue
		}
		fx.anchorHit(a.Anchor)
		var vals []Val
		var tys []types.Type
		if c.IsInvoke() {
			vals = append(vals, fr.val(c.Value))
			tys = append(tys, c.Value.Type())
		}
		for _, x := range c.Args {
			vals = append(vals, fr.val(x))
			tys = append(tys, x.Type())
		}
		env := fr.specEnv(st, blk, nil)
		fr.atInside = true // the call sits inside its block: values defined earlier in the block are visible
		defer func() { fr.atInside = false }()
		for i := range vals {
			env.vars[fmt.Sprintf("arg%d", i)] = SVal{V: vals[i], Ty: tys[i]}
		}
		usesIt := false
		ast.Inspect(a.Clause.Expr, func(n ast.Node) bool {
			if id, ok := n.(*ast.Ident); ok && id.Name == "it" {
				usesIt = true
			}
			return true
		})
		label := a.Clause.Label
		if label == "" {
			label = "assert"
		}
		if usesIt {
			for i := range vals {
				if tys[i] == nil || sortOf(tys[i]) != SString {
					continue
				}
				e2 := env.child()
				e2.vars["it"] = SVal{V: vals[i], Ty: tys[i]}
				g, err := e2.evalGoal(a.Clause.Expr)
				if err != nil {
					fx.unsupported = append(fx.unsupported, fmt.Sprintf("assert @%s: %v", a.Anchor, err))
					continue
				}
				fx.oblige(st, "assert", fmt.Sprintf("%s@%s.arg%d", label, lastSeg(name), i), g, pos)
			}
			continue
		}
		g, err := env.evalGoal(a.Clause.Expr)
		if err != nil {
			fx.unsupported = append(fx.unsupported, fmt.Sprintf("assert @%s: %v", a.Anchor, err))
			continue
		}
		fx.oblige(st, "assert", fmt.Sprintf("%s@%s", label, lastSeg(name)), g, pos)
	}
}


// ghostAnchors applies ghostset / ghostclear directives anchored at the given event ("call:<name>", "mapupdate:<type>", "lookup:<type>").
func (fr *Frame) ghostAnchors(event string, st *State) {
	fx := fr.fx
	if fx.contract == nil {
		return
	}
	if os.Getenv("GOVC_DEBUG") != "" {
		fmt.Fprintf(os.Stderr, "event %s\n", event)
	}
	for _, g := range fx.contract.GhostSets {
		if globMatch(g.Glob, event) {
			st.ghost[g.Label] = True
			fx.anchorHit(g.Glob)
		}
	}
	for _, g := range fx.contract.GhostClrs {
		if globMatch(g.Glob, event) {
			st.ghost[g.Label] = False
			fx.anchorHit(g.Glob)
		}
	}
}

// eventAsserts checks `assert @<event-glob> expr` clauses for non-call events (map reads / writes).
func (fr *Frame) eventAsserts(event string, st *State, pos token.Pos, vars ...map[string]SVal) {
	fx := fr.fx
	if fx.contract == nil {
		return
	}
	if !fr.top {
		// a map operation inside an inlined helper (set insert / lookup): checked against the contract of the
		// function under verification, in the scope of its own variables
		if fx.topFrame == nil {
			return
		}
		fr = fx.topFrame
	}
	for _, a := range fx.contract.Asserts {
		if strings.HasPrefix(a.Anchor, "call:") || strings.HasPrefix(a.Anchor, "store:") || strings.HasPrefix(a.Anchor, "setfield:") || !globMatch(a.Anchor, event) {
			continue
		}
		fx.anchorHit(a.Anchor)
		env := fr.specEnv(st, fr.evBlk, nil) // locals of the function are visible at the event's block
		saveInside := fr.atInside
		fr.atInside = true
		for _, vm := range vars {
			for k, v := range vm {
				env.vars[k] = v
			}
		}
		g, err := env.evalGoal(a.Clause.Expr)
		fr.atInside = saveInside
		if err != nil {
			fx.unsupported = append(fx.unsupported, fmt.Sprintf("assert @%s: %v", a.Anchor, err))
			continue
		}
		label := a.Clause.Label
		if label == "" {
			label = "assert"
		}
		kind := event
		if i := strings.Index(kind, ":"); i >= 0 {
			kind = kind[:i]
		}
		fx.oblige(st, "assert", label+"@"+kind, g, pos)
	}
}


// storeAsserts checks `assert @store:<field-key-glob> expr` clauses at a field store; `stored` is the value being
// written and `target` the object whose field is written (both typed).
func (fr *Frame) storeAsserts(event string, st *State, pos token.Pos, blk *ssa.BasicBlock, stored, target SVal) {
	fx := fr.fx
	for _, a := range fx.contract.Asserts {
		if !(strings.HasPrefix(a.Anchor, "store:") || strings.HasPrefix(a.Anchor, "setfield:")) || !globMatch(a.Anchor, event) {
			continue
		}
		fx.anchorHit(a.Anchor)
		env := fr.specEnv(st, blk, nil)
		fr.atInside = true
		env.vars["stored"] = stored
		env.vars["target"] = target
		g, err := env.evalGoal(a.Clause.Expr)
		fr.atInside = false
		if err != nil {
			fx.unsupported = append(fx.unsupported, fmt.Sprintf("assert @%s: %v", a.Anchor, err))
			continue
		}
		label := a.Clause.Label
		if label == "" {
			label = "assert"
		}
		fx.oblige(st, "assert", label+"@store", g, pos)
	}
}
