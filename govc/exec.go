package main

import (
	"os"
	"fmt"
	"go/token"
	"go/types"
	"sort"
	"strings"

	"golang.org/x/tools/go/ssa"
)

// LV describes a memory location: heap key + object ref (+ element index).
type LV struct {
	Key   string
	Ref   Term
	Idx   *Term // element index for Elem.* keys
	Sort  Sort
	IsRef bool // the location is statically typed as a reference (pointer, map, func, chan)
}

func isRefTy(t types.Type) bool { return t != nil && (isRefLike(t) || isStruct(t)) }

// Val is the symbolic value of an SSA value.
type Val struct {
	T     Term
	LV    *LV            // pointer to a location that is not a plain ref (field / element / global)
	Tuple []Val          // tuple
	Fn    *ssa.Function  // statically known function / closure body
	Bind  []Val          // closure bindings
	Recv  *Val           // bound method receiver
	IsLV  bool
	Iter  *iterInfo // range iterator
	Known bool
	LS    *LocalStruct // address of a frame-local struct variable (or of a nested struct field of one)
}

// LocalStruct: a struct-typed local variable whose fields live in per-variable heap keys.
type LocalStruct struct {
	Key string
	Ty  types.Type
}

type iterInfo struct {
	Coll Val
	Ty   types.Type
}

func tv(t Term) Val { return Val{T: t, Known: true} }

// State is the symbolic machine state at a program point.
type State struct {
	heap  map[string]Term
	epoch int
	wm    Term
	pc    Term
	ghost map[string]Term
	priv  []privRange // objects allocated by this activation that have not escaped
	qinst []qInst     // universally quantified facts that hold on this path (see inst.go)
}

func (s *State) clone() *State {
	n := &State{heap: make(map[string]Term, len(s.heap)), epoch: s.epoch, wm: s.wm, pc: s.pc, ghost: map[string]Term{}, priv: append([]privRange(nil), s.priv...), qinst: append([]qInst(nil), s.qinst...)}
	for k, v := range s.heap {
		n.heap[k] = v
	}
	for k, v := range s.ghost {
		n.ghost[k] = v
	}
	return n
}

// Obligation is a named proof obligation.
type Obligation struct {
	Name    string
	Class   string
	Func    string
	Prefix  int // number of ctx lines the query may use
	Goal    string
	ctx     *Ctx
	Pos     string
	Expect  string // "" normal, "canary" must fail
	Status  string // proved, failed, unknown
	Solver  string
	TimeMS  int64
	Model   string
	Detail  string
	Extra   []string // extra assumptions (known-finding exclusion)
	PlainGoal string // the unskolemised goal, when the goal was skolemised
	NoPrune   bool   // second attempt: the whole context instead of the cone of influence
	Inputs  map[string]string
	SrcText string
}

// FnExec verifies one top-level function.
type FnExec struct {
	eng      *Engine
	ctx      *Ctx
	fn       *ssa.Function
	contract *FuncContract
	obls     []*Obligation
	keySort  map[string]Sort
	notes    map[string]bool
	names    map[string]int
	entry    *State
	params   map[string]Val
	paramTy  map[string]types.Type
	inlineStack []*ssa.Function
	nepoch   int
	wrap64   bool
	results  []returnInfo
	unsupported []string
	refKeys  map[string]bool // field keys whose Int sort denotes a reference
	allowed  map[string][]Term // per-write frame: refs that may be written, per heap key (from modifies)
	allowedWhole map[string]bool
	hintTerms    []Term // loop indices in scope of the goal evaluated last (instantiation points, see inst.go)
	frameEpochs  map[int]bool // epochs opened by the havoc of a loop in a pure / perwrite function
	topFrame *Frame
	anchorHits map[string]int
	transitions map[int]*epochTransition
	linked   map[string]bool
	marks    map[string]*State
	markRes  map[string]SVal
	markCnt  map[string]int
	iterKeyUse int // 0 unknown, 1 the contract speaks of iterkey (directly or through a spec function), 2 it does not
}

type returnInfo struct {
	st   *State
	vals []Val
	blk  *ssa.BasicBlock
}

// Frame is one activation (top-level or inlined).
type Frame struct {
	fx      *FnExec
	fn      *ssa.Function
	vals    map[ssa.Value]Val
	free    map[*ssa.FreeVar]Val
	edges   map[[2]int]*State
	top     bool
	rets    []returnInfo
	defers  []*ssa.Defer
	deferVals [][]Val
	site    string
	loops   *loopInfo
	recovered bool
	fnspecOuter bool
	atInside bool
	deferPCs []Term
	evBlk   *ssa.BasicBlock // block of the instruction whose event (map update / lookup) is being checked
}

func (fx *FnExec) note(s string) { fx.notes[s] = true }

func (fx *FnExec) heapSort(key string) Sort {
	if s, ok := fx.keySort[key]; ok {
		return s
	}
	panic("unknown heap key " + key)
}

// heapGet returns the current array term of a heap key.
func (fx *FnExec) heapGet(st *State, key string, sort Sort) Term {
	if _, ok := fx.keySort[key]; !ok {
		fx.keySort[key] = sort
	}
	if t, ok := st.heap[key]; ok {
		return t
	}
	return fx.epochConst(key, st.epoch)
}

// epochConst: the value of a heap key at the start of an epoch; linked to the previous epoch on private objects.
func (fx *FnExec) epochConst(key string, epoch int) Term {
	c := fx.ctx.Const(fmt.Sprintf("H!%s!e%d", key, epoch), fx.keySort[key])
	if fx.frameEpochs[epoch] && fx.ctx.quant == 0 {
		fk := fmt.Sprintf("lf:%s!e%d", key, epoch)
		if fx.linked == nil {
			fx.linked = map[string]bool{}
		}
		if !fx.linked[fk] {
			fx.linked[fk] = true
			fx.loopFrameFact(key, c)
		}
	}
	if tr, ok := fx.transitions[epoch]; ok && len(tr.priv) > 0 {
		lk := fmt.Sprintf("%s!e%d", key, epoch)
		if fx.linked == nil {
			fx.linked = map[string]bool{}
		}
		if !fx.linked[lk] && fx.ctx.quant == 0 {
			fx.linked[lk] = true
			old, ok := tr.oldHeap[key]
			if !ok {
				old = fx.epochConst(key, tr.oldEpoch)
			}
			fx.preserveFacts(key, c, old, tr.priv)
		}
	}
	return c
}

func (fx *FnExec) heapSet(st *State, key string, t Term) {
	st.heap[key] = fx.ctx.Define("H."+key, t)
}

func (fx *FnExec) newEpoch(st *State) {
	fx.newEpochP(st, true)
}

// newEpochP: havoc everything; with preserve, cells of private objects keep their values.
func (fx *FnExec) newEpochP(st *State, preserve bool) {
	old := map[string]Term{}
	for k, v := range st.heap {
		old[k] = v
	}
	oldEpoch := st.epoch
	defer func() {
		if preserve && len(st.priv) > 0 {
			if fx.transitions == nil {
				fx.transitions = map[int]*epochTransition{}
			}
			fx.transitions[st.epoch] = &epochTransition{oldHeap: old, oldEpoch: oldEpoch, priv: append([]privRange(nil), st.priv...)}
		}
	}()
	keep := map[string]Term{}
	for k := range fx.keySort {
		if strings.HasPrefix(k, "Local.") {
			keep[k] = fx.heapGet(st, k, fx.keySort[k])
		}
	}
	fx.nepoch++
	st.epoch = fx.nepoch
	st.heap = keep
	st.wm = func() Term {
		w := fx.ctx.Fresh("wm", SInt)
		fx.ctx.Assert(Ge(w, st.wm))
		return w
	}()
}

func (fx *FnExec) alloc(st *State) Term {
	r := fx.ctx.Define("ref", Add(st.wm, Int(1)))
	st.wm = r
	return r
}

// assume adds a fact valid under the current path condition.
func (fx *FnExec) assume(st *State, fact Term) {
	fx.ctx.Assert(Implies(st.pc, fact))
}

// extendPC: c holds from here on. Quantifier-free conjuncts become part of the path condition; universally quantified
// ones are facts asserted under the path condition (and recorded for instantiation), so that path conditions — which
// occur in every later obligation — stay quantifier-free.
func (fx *FnExec) extendPC(st *State, c Term) {
	if fx.ctx.quant > 0 || !strings.Contains(c.S, "(forall ") {
		st.pc = fx.ctx.Define("pc", And(st.pc, c))
		return
	}
	var plain []Term
	var quantified []string
	var split func(f string)
	split = func(f string) {
		if !strings.Contains(f, "(forall ") {
			plain = append(plain, Term{f, SBool})
			return
		}
		if op, args, ok := topArgs(f); ok && op == "and" {
			for _, a := range args {
				split(a)
			}
			return
		}
		quantified = append(quantified, f)
	}
	split(c.S)
	st.pc = fx.ctx.Define("pc", And(append([]Term{st.pc}, plain...)...))
	for _, q := range quantified {
		if _, _, _, ok := parseForall(q); ok || strings.HasPrefix(q, "(=> ") {
			fx.ctx.lines = append(fx.ctx.lines, "(assert (=> "+st.pc.S+" "+q+"))")
			fx.noteQuantified(st, st.pc.S, q)
			continue
		}
		// a quantifier in a position that is not plainly positive: keep it in the path condition
		st.pc = fx.ctx.Define("pc", And(st.pc, Term{q, SBool}))
	}
}

func (fx *FnExec) oblName(class, label string) string {
	base := fmt.Sprintf("%s#%s:%s", fx.eng.shortName(fx.fn), class, label)
	fx.names[base]++
	if n := fx.names[base]; n > 1 {
		return fmt.Sprintf("%s~%d", base, n)
	}
	return base
}

var noSkolem = os.Getenv("GOVC_NOSKOLEM") != ""

// oblige records an obligation pc => goal and then assumes goal.
func (fx *FnExec) oblige(st *State, class, label string, goal Term, pos token.Pos) *Obligation {
	if goal.S == "true" {
		return nil
	}
	var sks [][2]string
	sg := goal.S
	if !noSkolem {
		sg = fx.skolemise(goal.S, &sks)
	}
	o := &Obligation{
		Name:   fx.oblName(class, label),
		Class:  class,
		Func:   fx.eng.shortName(fx.fn),
		Prefix: fx.ctx.Mark(),
		Goal:   And(st.pc, Not(Term{sg, SBool})).S,
		ctx:    fx.ctx,
	}
	for _, h := range fx.hintTerms {
		if len(h.S) < 200 {
			sks = append(sks, [2]string{h.S, "Int"})
		}
	}
	fx.hintTerms = nil
	if len(sks) > 0 && !noSkolem {
		o.Extra = append(o.Extra, fx.instances(st, sks, o.Prefix)...)
	}
	if sg != goal.S {
		o.PlainGoal = And(st.pc, Not(goal)).S // the goal as written (quantifier kept): raced against the skolemised form
	}
	if pos.IsValid() {
		p := fx.eng.prog.Fset.Position(pos)
		o.Pos = fmt.Sprintf("%s:%d", strings.TrimPrefix(p.Filename, fx.eng.repo+"/"), p.Line)
	}
	fx.obls = append(fx.obls, o)
	fx.extendPC(st, goal)
	return o
}

// wellFormed adds typing facts about a value freshly obtained from the heap / a call / a parameter.
func (fx *FnExec) wellFormed(st *State, v Term, t types.Type) {
	if t == nil {
		return
	}
	switch u := t.Underlying().(type) {
	case *types.Pointer, *types.Map, *types.Chan, *types.Signature, *types.Struct, *types.Array:
		fx.assume(st, And(Ge(v, Int(0)), Le(v, st.wm)))
		if mt, ok := u.(*types.Map); ok && !strings.Contains(v.S, "|q!") && !strings.Contains(st.pc.S, "|q!") {
			// type safety: a map object has one key and element type for its whole life
			if _, tp1 := types.Unalias(mt.Key()).(*types.TypeParam); !tp1 {
				if _, tp2 := types.Unalias(mt.Elem()).(*types.TypeParam); !tp2 {
					f := fx.ctx.DeclFun("maptype", []Sort{SInt}, SInt)
					fact := Implies(st.pc, Implies(Not(Eq(v, Int(0))), Eq(Term{"(" + f + " " + v.S + ")", SInt}, Int(int64(fx.eng.typeID(types.Unalias(t.Underlying())))))))
					fx.ctx.RawOnce("maptype:"+fact.S, "(assert "+fact.S+")")
				}
			}
		}
	case *types.Slice:
		fx.assume(st, And(Ge(SlBase(v), Int(0)), Le(SlBase(v), st.wm), Ge(SlOff(v), Int(0)), Ge(SlLen(v), Int(0)), Le(SlLen(v), SlCap(v)),
			Implies(Eq(SlBase(v), Int(0)), Eq(SlCap(v), Int(0)))))
		fx.arrTypeFact(st, v, u.Elem())
	case *types.Interface:
		fx.assume(st, And(Ge(IfVal(v), Int(0)), Le(IfVal(v), st.wm), Ge(IfTag(v), Int(0)),
			Eq(Eq(IfTag(v), Int(0)), Eq(IfVal(v), Int(0)))))
	case *types.Basic:
		if u.Info()&types.IsUnsigned != 0 {
			fx.assume(st, Ge(v, Int(0)))
		}
		if u.Kind() == types.Uint8 {
			fx.assume(st, Le(v, Int(255)))
		}
		if fx.wrap64 {
			switch u.Kind() {
			case types.Int64, types.Int:
				fx.assume(st, And(Ge(v, Term{"(- 9223372036854775808)", SInt}), Le(v, Term{"9223372036854775807", SInt})))
			case types.Int32:
				fx.assume(st, And(Ge(v, Term{"(- 2147483648)", SInt}), Le(v, Term{"2147483647", SInt})))
			}
		}
	}
}

// arrTypeFact: type safety — a backing array has one element type for its whole life, so slices with different
// element types never share an array (no unsafe / reflect in the code under contract).
func (fx *FnExec) arrTypeFact(st *State, v Term, elem types.Type) {
	if _, isTP := types.Unalias(elem).(*types.TypeParam); isTP || strings.Contains(v.S, "|q!") || strings.Contains(st.pc.S, "|q!") {
		return
	}
	at := fx.ctx.DeclFun("arrtype", []Sort{SInt}, SInt)
	f := Implies(st.pc, Implies(Not(Eq(SlBase(v), Int(0))), Eq(Term{"(" + at + " " + SlBase(v).S + ")", SInt}, Int(int64(fx.eng.typeID(types.Unalias(elem)))))))
	fx.ctx.RawOnce("arrtype:"+f.S, "(assert "+f.S+")") // also under a binder: the term has no bound variable
}

// ---- locations

func fieldKey(st types.Type, field string) string {
	return "F." + typeKey(st) + "." + field
}

// entryFact: the entry heap is closed — a cell of the entry heap holds a reference allocated before entry.
func (fx *FnExec) entryFact(lv *LV) {
	if fx.entry == nil {
		return
	}
	var v Term
	if lv.Idx != nil {
		arr := fx.heapGet(fx.entry, lv.Key, ArraySort(SInt, ArraySort(SInt, lv.Sort)))
		v = Select(Select(arr, lv.Ref, ArraySort(SInt, lv.Sort)), *lv.Idx, lv.Sort)
	} else {
		arr := fx.heapGet(fx.entry, lv.Key, ArraySort(SInt, lv.Sort))
		v = Select(arr, lv.Ref, lv.Sort)
	}
	var f Term
	switch lv.Sort {
	case SSlice:
		f = Le(SlBase(v), fx.entry.wm)
	case SIface:
		f = Le(IfVal(v), fx.entry.wm)
	case SInt:
		if !lv.IsRef {
			return
		}
		f = Le(v, fx.entry.wm)
	default:
		return
	}
	if strings.Contains(f.S, "|q!") {
		// under a quantifier: the fact becomes a side condition of the quantified body
		if n := len(fx.ctx.qfacts); n > 0 {
			w := fx.entry.wm.S
			guard := fmt.Sprintf("(and (<= %s %s) (> %s (- (* 1024 (+ %s 1)))))", lv.Ref.S, w, lv.Ref.S, w)
			fx.ctx.qfacts[n-1] = append(fx.ctx.qfacts[n-1], "(=> "+guard+" "+f.S+")")
		}
		return
	}
	// only cells of objects that existed at entry (or interior parts of such objects): cells above the entry
	// watermark are unallocated and hold whatever a later allocation puts there
	w := fx.entry.wm.S
	guard := fmt.Sprintf("(and (<= %s %s) (> %s (- (* 1024 (+ %s 1)))))", lv.Ref.S, w, lv.Ref.S, w)
	fx.ctx.RawOnce("entryfact!"+f.S, "(assert (=> "+guard+" "+f.S+"))")
}

func (fx *FnExec) readLV(st *State, lv *LV) Term {
	fx.entryFact(lv)
	if lv.Idx != nil {
		arr := fx.heapGet(st, lv.Key, ArraySort(SInt, ArraySort(SInt, lv.Sort)))
		return Select(Select(arr, lv.Ref, ArraySort(SInt, lv.Sort)), *lv.Idx, lv.Sort)
	}
	arr := fx.heapGet(st, lv.Key, ArraySort(SInt, lv.Sort))
	return Select(arr, lv.Ref, lv.Sort)
}

func (fx *FnExec) writeLV(st *State, lv *LV, v Term) {
	if lv.Idx != nil {
		inner := ArraySort(SInt, lv.Sort)
		arr := fx.heapGet(st, lv.Key, ArraySort(SInt, inner))
		fx.heapSet(st, lv.Key, Store(arr, lv.Ref, Store(Select(arr, lv.Ref, inner), *lv.Idx, v)))
		return
	}
	arr := fx.heapGet(st, lv.Key, ArraySort(SInt, lv.Sort))
	fx.heapSet(st, lv.Key, Store(arr, lv.Ref, v))
}

func elemKey(s Sort) string { return "Elem." + string(s) }
func cellKey(s Sort) string { return "Cell." + string(s) }

// subRef is the interior pointer to a struct/array-typed field: -(1024*|p| + k) for the k-th such field key.
// Injective in (p, k) by linear arithmetic, and negative, so it never collides with nil or an allocated object.
func (fx *FnExec) subRef(p Term, key string) Term {
	idx := fx.eng.subIndex(key)
	return Term{fmt.Sprintf("(subref %s %d)", p.S, idx), SInt}
}

// structFields lists the fields of a struct type.
func structFields(t types.Type) []*types.Var {
	s, ok := t.Underlying().(*types.Struct)
	if !ok {
		return nil
	}
	var out []*types.Var
	for i := 0; i < s.NumFields(); i++ {
		out = append(out, s.Field(i))
	}
	return out
}

func (fx *FnExec) copyStruct(st *State, dst, src Term, t types.Type, depth int) {
	if depth > 3 {
		fx.note("deeply nested struct copy truncated (imprecise)")
		return
	}
	for _, f := range structFields(t) {
		key := fieldKey(t, f.Name())
		if isStruct(f.Type()) || isArray(f.Type()) {
			if isStruct(f.Type()) {
				fx.copyStruct(st, fx.subRef(dst, key), fx.subRef(src, key), f.Type(), depth+1)
			}
			continue
		}
		s := sortOf(f.Type())
		arr := fx.heapGet(st, key, ArraySort(SInt, s))
		fx.heapSet(st, key, Store(arr, dst, Select(arr, src, s)))
	}
}

func (fx *FnExec) zeroStruct(st *State, dst Term, t types.Type, depth int) {
	if depth > 3 {
		return
	}
	for _, f := range structFields(t) {
		key := fieldKey(t, f.Name())
		if isStruct(f.Type()) {
			fx.zeroStruct(st, fx.subRef(dst, key), f.Type(), depth+1)
			continue
		}
		if isArray(f.Type()) {
			continue
		}
		s := sortOf(f.Type())
		arr := fx.heapGet(st, key, ArraySort(SInt, s))
		fx.heapSet(st, key, Store(arr, dst, zeroOf(f.Type())))
	}
}

// pointee returns the location a pointer value points to (for non-struct pointees).
func (fx *FnExec) pointee(p Val, elem types.Type) *LV {
	if p.LV != nil {
		return p.LV
	}
	s := sortOf(elem)
	return &LV{Key: cellKey(s), Ref: p.T, Sort: s, IsRef: isRefTy(elem)}
}

// ---- loops

type loopInfo struct {
	headers  map[int]bool
	back     map[[2]int]bool
	body     map[int]map[int]bool // header -> blocks
	ordinal  map[int]int          // header -> source ordinal
	rpo      []*ssa.BasicBlock
	irreducible bool
}

func analyzeLoops(fn *ssa.Function) *loopInfo {
	li := &loopInfo{headers: map[int]bool{}, back: map[[2]int]bool{}, body: map[int]map[int]bool{}, ordinal: map[int]int{}}
	if len(fn.Blocks) == 0 {
		return li
	}
	// DFS for RPO and retreating edges
	state := map[int]int{}
	var post []*ssa.BasicBlock
	var dfs func(b *ssa.BasicBlock)
	dfs = func(b *ssa.BasicBlock) {
		state[b.Index] = 1
		for _, s := range b.Succs {
			switch state[s.Index] {
			case 0:
				dfs(s)
			case 1:
				// retreating edge
				if s.Dominates(b) {
					li.back[[2]int{b.Index, s.Index}] = true
					li.headers[s.Index] = true
				} else {
					li.irreducible = true
				}
			}
		}
		state[b.Index] = 2
		post = append(post, b)
	}
	dfs(fn.Blocks[0])
	if fn.Recover != nil && state[fn.Recover.Index] == 0 {
		// recover block is not reachable by normal edges; executed separately
	}
	for i := len(post) - 1; i >= 0; i-- {
		li.rpo = append(li.rpo, post[i])
	}
	// natural loop bodies
	for e := range li.back {
		h := e[1]
		body := li.body[h]
		if body == nil {
			body = map[int]bool{h: true}
			li.body[h] = body
		}
		var stack []int
		if !body[e[0]] {
			body[e[0]] = true
			stack = append(stack, e[0])
		}
		for len(stack) > 0 {
			n := stack[len(stack)-1]
			stack = stack[:len(stack)-1]
			for _, p := range fn.Blocks[n].Preds {
				if !body[p.Index] {
					body[p.Index] = true
					stack = append(stack, p.Index)
				}
			}
		}
	}
	// ordinals by minimal source position in body, ties: larger body first
	type hp struct {
		h    int
		pos  token.Pos
		size int
	}
	var hs []hp
	for h, body := range li.body {
		min := token.Pos(1 << 60)
		for bi := range body {
			for _, in := range fn.Blocks[bi].Instrs {
				if _, ok := in.(*ssa.DebugRef); ok {
					continue
				}
				if _, ok := in.(*ssa.Phi); ok {
					continue // a phi carries the position of the variable's declaration, which can precede the loop
				}
				if p := in.Pos(); p.IsValid() && p < min {
					min = p
				}
			}
		}
		hs = append(hs, hp{h, min, len(body)})
	}
	sort.Slice(hs, func(i, j int) bool {
		if hs[i].pos != hs[j].pos {
			return hs[i].pos < hs[j].pos
		}
		if hs[i].size != hs[j].size {
			return hs[i].size > hs[j].size
		}
		return hs[i].h < hs[j].h
	})
	for i, x := range hs {
		li.ordinal[x.h] = i
	}
	return li
}

// ---- executing a function body

func (fx *FnExec) newFrame(fn *ssa.Function, top bool) *Frame {
	return &Frame{fx: fx, fn: fn, vals: map[ssa.Value]Val{}, free: map[*ssa.FreeVar]Val{}, edges: map[[2]int]*State{}, top: top, loops: fx.eng.loopsOf(fn)}
}

// mergeStates merges states with mutually exclusive path conditions.
func (fx *FnExec) mergeStates(sts []*State) *State {
	if len(sts) == 1 {
		return sts[0].clone()
	}
	out := &State{heap: map[string]Term{}, ghost: map[string]Term{}}
	for _, r := range sts[0].priv {
		all := true
		for _, s := range sts[1:] {
			found := false
			for _, q := range s.priv {
				if q.lo.S == r.lo.S && q.hi.S == r.hi.S {
					found = true
				}
			}
			if !found {
				all = false
			}
		}
		if all {
			out.priv = append(out.priv, r)
		}
	}
	// quantified facts carry their own guard (the path condition they were assumed under), so the union is sound
	seenQ := map[string]bool{}
	for _, s := range sts {
		for _, q := range s.qinst {
			if k := q.guard + "\x00" + q.bv; !seenQ[k] {
				seenQ[k] = true
				out.qinst = append(out.qinst, q)
			}
		}
	}
	var pcs []Term
	for _, s := range sts {
		pcs = append(pcs, s.pc)
	}
	out.pc = fx.ctx.Define("pc", Or(pcs...))
	sameEpoch := true
	for _, s := range sts[1:] {
		if s.epoch != sts[0].epoch {
			sameEpoch = false
		}
	}
	keys := map[string]bool{}
	if sameEpoch {
		out.epoch = sts[0].epoch
		for _, s := range sts {
			for k := range s.heap {
				keys[k] = true
			}
		}
	} else {
		fx.nepoch++
		out.epoch = fx.nepoch
		for k := range fx.keySort {
			keys[k] = true
		}
	}
	for _, k := range sortedKeys(keys) {
		t := fx.heapGet(sts[len(sts)-1], k, fx.keySort[k])
		for i := len(sts) - 2; i >= 0; i-- {
			t = Ite(sts[i].pc, fx.heapGet(sts[i], k, fx.keySort[k]), t)
		}
		out.heap[k] = fx.ctx.Define("H."+k, t)
	}
	w := sts[len(sts)-1].wm
	for i := len(sts) - 2; i >= 0; i-- {
		w = Ite(sts[i].pc, sts[i].wm, w)
	}
	out.wm = fx.ctx.Define("wm", w)
	gk := map[string]bool{}
	for _, s := range sts {
		for k := range s.ghost {
			gk[k] = true
		}
	}
	for _, k := range sortedKeys(gk) {
		var t Term
		first := true
		for i := len(sts) - 1; i >= 0; i-- {
			g, ok := sts[i].ghost[k]
			if !ok {
				g = False
			}
			if first {
				t = g
				first = false
			} else {
				t = Ite(sts[i].pc, g, t)
			}
		}
		out.ghost[k] = fx.ctx.Define("g."+k, t)
	}
	return out
}

// mergeVals merges values under the given guards.
func (fx *FnExec) mergeVals(guards []Term, vals []Val, ty types.Type) Val {
	if len(vals) == 1 {
		return vals[0]
	}
	allSameFn := vals[0].Fn != nil
	for _, v := range vals {
		if v.Fn != vals[0].Fn {
			allSameFn = false
		}
	}
	if allSameFn && len(vals[0].Bind) == 0 {
		return vals[0]
	}
	if _, ok := ty.(*types.Tuple); ok || vals[0].Tuple != nil {
		n := len(vals[0].Tuple)
		out := Val{Tuple: make([]Val, n), Known: true}
		for i := 0; i < n; i++ {
			var sub []Val
			for _, v := range vals {
				sub = append(sub, v.Tuple[i])
			}
			var et types.Type
			if tt, ok := ty.(*types.Tuple); ok {
				et = tt.At(i).Type()
			}
			out.Tuple[i] = fx.mergeVals(guards, sub, et)
		}
		return out
	}
	// LVs: identical only
	sameLV := vals[0].LV != nil
	for _, v := range vals {
		if v.LV == nil || vals[0].LV == nil || v.LV.Key != vals[0].LV.Key || v.LV.Ref.S != vals[0].LV.Ref.S || (v.LV.Idx == nil) != (vals[0].LV.Idx == nil) || (v.LV.Idx != nil && v.LV.Idx.S != vals[0].LV.Idx.S) {
			sameLV = false
		}
	}
	if sameLV {
		return vals[0]
	}
	var ts []Term
	for _, v := range vals {
		ts = append(ts, fx.materialize(v, ty))
	}
	t := ts[len(ts)-1]
	for i := len(ts) - 2; i >= 0; i-- {
		t = Ite(guards[i], ts[i], t)
	}
	return tv(fx.ctx.Define("phi", t))
}

// materialize turns a Val into a plain term (pointers to fields become opaque refs).
func (fx *FnExec) materialize(v Val, ty types.Type) Term {
	if v.LS != nil {
		fx.note("address of a local struct variable materialised as an opaque pointer (imprecise): " + v.LS.Key)
		return fx.ctx.Const("addr!"+v.LS.Key, SInt)
	}
	if v.LV != nil {
		if v.LV.Idx == nil && strings.HasPrefix(v.LV.Key, "Cell.") {
			return v.LV.Ref
		}
		fx.note("address of field/element/global materialised as opaque pointer (imprecise): " + v.LV.Key)
		f := fx.ctx.DeclFun("addr!"+v.LV.Key, []Sort{SInt, SInt}, SInt)
		idx := Int(0)
		if v.LV.Idx != nil {
			idx = *v.LV.Idx
		}
		fx.ctx.RawOnce("addrax!"+v.LV.Key, fmt.Sprintf("(assert (forall ((p Int) (i Int)) (! (< (%s p i) 0) :pattern ((%s p i)))))", f, f))
		return App(SInt, f, v.LV.Ref, idx)
	}
	if v.Fn != nil && v.T.S == "" {
		id := fx.eng.funcID(v.Fn)
		if len(v.Bind) == 0 {
			return Int(int64(-1000000 - id))
		}
		return fx.ctx.Fresh("closure", SInt)
	}
	if v.T.S == "" {
		s := SInt
		if ty != nil {
			s = sortOf(ty)
		}
		return fx.ctx.Fresh("unk", s)
	}
	return v.T
}

func (fx *FnExec) freshVal(st *State, prefix string, ty types.Type) Val {
	if tt, ok := ty.(*types.Tuple); ok {
		out := Val{Tuple: make([]Val, tt.Len()), Known: true}
		for i := 0; i < tt.Len(); i++ {
			out.Tuple[i] = fx.freshVal(st, prefix, tt.At(i).Type())
		}
		return out
	}
	t := fx.ctx.Fresh(prefix, sortOf(ty))
	fx.wellFormed(st, t, ty)
	return tv(t)
}

// runBody executes the CFG of fr.fn from the given entry state. Returns merged exit info via fr.rets.
func (fr *Frame) runBody(entry *State) {
	fx := fr.fx
	fn := fr.fn
	li := fr.loops
	if li.irreducible {
		fx.unsupported = append(fx.unsupported, "irreducible control flow in "+fn.String())
		return
	}
	for _, b := range li.rpo {
		var st *State
		if b.Index == 0 {
			st = entry.clone()
		} else {
			var ins []*State
			var preds []*ssa.BasicBlock
			for _, p := range b.Preds {
				if li.back[[2]int{p.Index, b.Index}] {
					continue
				}
				if e, ok := fr.edges[[2]int{p.Index, b.Index}]; ok {
					ins = append(ins, e)
					preds = append(preds, p)
				}
			}
			if len(ins) == 0 {
				continue // unreachable
			}
			if li.headers[b.Index] {
				st = fr.enterLoop(b, ins, preds)
			} else {
				st = fx.mergeStates(ins)
				fr.evalPhis(b, ins, preds)
			}
		}
		if st.pc.S == "false" {
			continue
		}
		fr.execBlock(b, st)
	}
}

func (fr *Frame) evalPhis(b *ssa.BasicBlock, ins []*State, preds []*ssa.BasicBlock) {
	for _, in := range b.Instrs {
		phi, ok := in.(*ssa.Phi)
		if !ok {
			break
		}
		var guards []Term
		var vals []Val
		for i, p := range preds {
			// find edge index of p in b.Preds
			for j, bp := range b.Preds {
				if bp == p {
					guards = append(guards, ins[i].pc)
					vals = append(vals, fr.val(phi.Edges[j]))
					break
				}
			}
		}
		fr.vals[phi] = fr.fx.mergeVals(guards, vals, phi.Type())
	}
}

// loopFrameFact: in a function whose writes are justified one by one (pure / perwrite), an object that existed at
// function entry and is not a modifies target still has its entry value at every loop header — every write and every
// callee effect inside the loop is obliged to hit a fresh object or a listed location, so by induction over the
// execution nothing else changes. This is the loop frame; it replaces restating "the rest is unchanged" in invariants.
func (fx *FnExec) loopFrameFact(key string, cur Term) {
	if !fx.perWrite() || fx.entry == nil || strings.HasPrefix(key, "Local.") || strings.HasPrefix(key, "Box.") || fx.allowedWhole[key] {
		return
	}
	sort := fx.keySort[key]
	if !strings.HasPrefix(string(sort), "(Array Int ") {
		return
	}
	old := fx.heapGet(fx.entry, key, sort)
	if old.S == cur.S {
		return
	}
	fx.ctx.nfresh++
	p := smtIdent(fmt.Sprintf("q!lf!%d", fx.ctx.nfresh))
	w := fx.entry.wm.S
	conds := []string{fmt.Sprintf("(not (= %s 0))", p), fmt.Sprintf("(<= %s %s)", p, w), fmt.Sprintf("(> %s (- (* 1024 (+ %s 1))))", p, w)}
	if strings.HasPrefix(key, "Glob.") {
		conds = []string{fmt.Sprintf("(= %s 1)", p)}
	}
	for _, a := range fx.allowed[key] {
		conds = append(conds, fmt.Sprintf("(not (= %s %s))", p, a.S))
	}
	fx.ctx.Assert(Term{fmt.Sprintf("(forall ((%s Int)) (=> (and %s) (= (select %s %s) (select %s %s))))", p, strings.Join(conds, " "), cur.S, p, old.S, p), SBool})
}

// modified heap keys / allocation inside a loop body
func (fr *Frame) loopMods(h int) (keys map[string]Sort, any bool) {
	return fr.fx.eng.loopModSet(fr.fn, fr.loops.body[h])
}

func (fr *Frame) enterLoop(h *ssa.BasicBlock, ins []*State, preds []*ssa.BasicBlock) *State {
	fx := fr.fx
	li := fr.loops
	pre := fx.mergeStates(ins)
	fr.evalPhis(h, ins, preds)
	var spec *LoopSpec
	ord := li.ordinal[h.Index]
	if fr.top && fx.contract != nil {
		spec = fx.contract.Loops[ord]
	}
	// 1. invariant holds on entry
	if spec != nil {
		for i, c := range spec.Inv {
			env := fr.specEnv(pre, h, nil)
			env.preSt = pre
			g, err := env.evalGoal(c.Expr)
			if err != nil {
				fx.unsupported = append(fx.unsupported, fmt.Sprintf("loop %d invariant %q: %v", ord, c.Src, err))
				continue
			}
			fx.oblige(pre, "inv-init", fmt.Sprintf("loop%d.%s", ord, clauseLabel(c, i)), g, token.NoPos)
		}
	}
	// 2. havoc
	st := pre.clone()
	keys, any := fr.loopMods(h.Index)
	if any {
		fx.newEpochP(st, false) // the loop itself may modify private objects: the invariant has to restate them
		if fx.perWrite() {
			if fx.frameEpochs == nil {
				fx.frameEpochs = map[int]bool{}
			}
			fx.frameEpochs[st.epoch] = true
		}
		for _, k := range sortedKeys(keys) {
			if strings.HasPrefix(k, "Local.") {
				if _, ok := fx.keySort[k]; !ok {
					fx.keySort[k] = keys[k]
				}
				st.heap[k] = fx.ctx.Fresh("Hloop."+k, fx.keySort[k])
			}
		}
	} else {
		for _, k := range sortedKeys(keys) {
			if _, ok := fx.keySort[k]; !ok {
				fx.keySort[k] = keys[k]
			}
			st.heap[k] = fx.ctx.Fresh("Hloop."+k, fx.keySort[k])
			if fr.top || fr.fx.topFrame != nil {
				fx.loopFrameFact(k, st.heap[k])
			}
		}
		w := fx.ctx.Fresh("wm", SInt)
		fx.ctx.Assert(Ge(w, st.wm))
		st.wm = w
	}
	gmods := fr.loopGhostMods(h.Index)
	for k := range st.ghost {
		if strings.HasPrefix(k, "err:") {
			continue // error flags are carried unchanged around the loop (checked at the back edge)
		}
		if !gmods[k] {
			continue // no event in the loop body can set or clear this flag
		}
		st.ghost[k] = fx.ctx.Fresh("g."+k, SBool)
	}
	if fr.top && fx.contract != nil {
		fr.ghostAnchors(fmt.Sprintf("iter:%d", ord), st) // the start of an iteration is an event ghost flags can be keyed to
	}
	if loopGhosts[fr] == nil {
		loopGhosts[fr] = map[int]map[string]Term{}
	}
	hg := map[string]Term{}
	for k, v := range st.ghost {
		if strings.HasPrefix(k, "err:") {
			hg[k] = v
		}
	}
	loopGhosts[fr][h.Index] = hg
	entryPhi := map[*ssa.Phi]Val{}
	for _, in := range h.Instrs {
		phi, ok := in.(*ssa.Phi)
		if !ok {
			break
		}
		entryPhi[phi] = fr.vals[phi]
		fr.vals[phi] = fx.freshVal(st, "loop."+phi.Comment, phi.Type())
	}
	// range-over-slice index: starts at -1 and only ever increases by one (by construction of the SSA)
	for _, in := range h.Instrs {
		phi, ok := in.(*ssa.Phi)
		if !ok {
			break
		}
		if phi.Comment == "rangeindex" {
			fx.extendPC(st, Ge(fx.materialize(fr.vals[phi], phi.Type()), Int(-1)))
		}
	}
	defer func() {
		if fr.top && fx.contract != nil && spec != nil {
			o := fx.oblige(st.clone(), "cover", fmt.Sprintf("loop%d-reachable", ord), False, token.NoPos)
			if o != nil {
				o.Expect = "canary"
			}
		}
	}()
	// 3. assume invariant
	if spec != nil && len(spec.Step) > 0 {
		if loopHdrs[fr] == nil {
			loopHdrs[fr] = map[int]*State{}
		}
	}
	defer func() {
		if spec != nil && len(spec.Step) > 0 {
			loopHdrs[fr][h.Index] = st.clone()
		}
	}()
	if loopPres[fr] == nil {
		loopPres[fr] = map[int]*State{}
	}
	loopPres[fr][h.Index] = pre.clone()
	if spec != nil {
		for _, c := range spec.Inv {
			env := fr.specEnv(st, h, nil)
			env.preSt = loopPres[fr][h.Index]
			g, err := env.evalBool(c.Expr)
			if err != nil {
				continue
			}
			fx.extendPC(st, g)
		}
		if spec.Dec != nil {
			env := fr.specEnv(st, h, nil)
			m, err := env.evalTerm(spec.Dec.Expr)
			if err == nil {
				st.ghost["__dec"] = False // placeholder to keep map non-nil
				fr.loopDec(h.Index, fx.ctx.Define("measure", m))
			} else {
				fx.unsupported = append(fx.unsupported, fmt.Sprintf("loop %d decreases: %v", ord, err))
			}
		}
	}
	return st
}

var loopDecs = map[*Frame]map[int]Term{}
var loopGhosts = map[*Frame]map[int]map[string]Term{}
var loopHdrs = map[*Frame]map[int]*State{}
var loopPres = map[*Frame]map[int]*State{}

func (fr *Frame) loopDec(h int, m Term) {
	if loopDecs[fr] == nil {
		loopDecs[fr] = map[int]Term{}
	}
	loopDecs[fr][h] = m
}

func clauseLabel(c Clause, i int) string {
	if c.Label != "" {
		return c.Label
	}
	return fmt.Sprintf("%d", i)
}

// backEdge checks invariant preservation along a back edge u -> h.
func (fr *Frame) backEdge(u, h *ssa.BasicBlock, st *State) {
	fx := fr.fx
	ord := fr.loops.ordinal[h.Index]
	// an error recorded inside the loop body must not be carried into the next iteration unhandled
	if fr.top && fx.contract != nil && len(fx.contract.ErrProp) > 0 {
		hg := loopGhosts[fr][h.Index]
		for _, k := range sortedKeys(st.ghost) {
			if !strings.HasPrefix(k, "err:") {
				continue
			}
			before, ok := hg[k]
			if !ok {
				before = False
			}
			work := st.clone()
			fx.oblige(work, "errprop", fmt.Sprintf("%s.not-swallowed-in-loop%d", strings.TrimPrefix(k, "err:"), ord), Eq(st.ghost[k], before), token.NoPos)
		}
	}
	var spec *LoopSpec
	if fr.top && fx.contract != nil {
		spec = fx.contract.Loops[ord]
	}
	if spec == nil {
		return
	}
	// phi values along this edge
	over := map[string]Val{}
	saved := map[*ssa.Phi]Val{}
	for _, in := range h.Instrs {
		phi, ok := in.(*ssa.Phi)
		if !ok {
			break
		}
		for j, bp := range h.Preds {
			if bp == u {
				saved[phi] = fr.vals[phi]
				over[phi.Comment] = fr.val(phi.Edges[j])
			}
		}
	}
	// temporarily rebind phis
	for phi := range saved {
		for j, bp := range h.Preds {
			if bp == u {
				fr.vals[phi] = fr.val(phi.Edges[j])
			}
		}
	}
	// vacuity guard: the back edge must be reachable in the encoding, or every step / preservation obligation below is
	// discharged by a dead path (a contradictory callee postcondition, an over-strong assumption)
	if o := fx.oblige(st.clone(), "cover", fmt.Sprintf("loop%d-backedge-reachable", ord), False, token.NoPos); o != nil {
		o.Expect = "canary"
	}
	work := st.clone()
	for i, c := range spec.Inv {
		env := fr.specEnv(work, h, nil)
		env.preSt = loopPres[fr][h.Index]
		g, err := env.evalGoal(c.Expr)
		if err != nil {
			fx.unsupported = append(fx.unsupported, fmt.Sprintf("loop %d invariant %q at back edge: %v", ord, c.Src, err))
			continue
		}
		fx.oblige(work, "inv-step", fmt.Sprintf("loop%d.%s", ord, clauseLabel(c, i)), g, token.NoPos)
	}
	if hs, ok := loopHdrs[fr][h.Index]; ok {
		for i, c := range spec.Step {
			// evaluated at the back edge: values of this iteration (range variables, temporaries) are visible
			env := fr.specEnv(work, u, nil)
			fr.atInside = true
			defer func() { fr.atInside = false }()
			henv := fr.specEnv(hs, h, nil)
			for phi, v := range saved {
				henv.vars[phi.Comment] = SVal{V: v, Ty: phi.Type()}
			}
			env.hdrEnv = henv
			g, err := env.evalBool(c.Expr)
			if err != nil && strings.Contains(err.Error(), "was not reached") {
				continue // the clause speaks about a call this back edge's paths never make (e.g. an early `continue`)
			}
			if err != nil {
				fx.unsupported = append(fx.unsupported, fmt.Sprintf("loop %d step %q: %v", ord, c.Src, err))
				continue
			}
			fx.oblige(work, "step", fmt.Sprintf("loop%d.%s", ord, clauseLabel(c, i)), g, token.NoPos)
		}
	}
	if spec.Dec != nil {
		if m0, ok := loopDecs[fr][h.Index]; ok {
			env := fr.specEnv(work, h, nil)
			m1, err := env.evalTerm(spec.Dec.Expr)
			if err == nil {
				fx.oblige(work, "decreases", fmt.Sprintf("loop%d", ord), And(Ge(m0, Int(0)), Lt(m1, m0)), token.NoPos)
			}
		}
	}
	for phi, v := range saved {
		fr.vals[phi] = v
	}
}

func (fr *Frame) execBlock(b *ssa.BasicBlock, st *State) {
	fx := fr.fx
	for _, in := range b.Instrs {
		if st.pc.S == "false" {
			return
		}
		switch x := in.(type) {
		case *ssa.Phi, *ssa.DebugRef:
			continue
		case *ssa.If:
			c := fx.materialize(fr.val(x.Cond), nil)
			c = fx.ctx.Define("cond", c)
			fr.edge(b, b.Succs[0], st, c)
			fr.edge(b, b.Succs[1], st, Not(c))
			return
		case *ssa.Jump:
			fr.edge(b, b.Succs[0], st, True)
			return
		case *ssa.Return:
			fr.doReturn(x, st)
			return
		case *ssa.Panic:
			fr.doPanic(x, st)
			return
		default:
			fr.execInstr(in, st)
		}
	}
}

func (fr *Frame) edge(from, to *ssa.BasicBlock, st *State, cond Term) {
	n := st.clone()
	if cond.S != "true" {
		n.pc = fr.fx.ctx.Define("pc", And(st.pc, cond))
	}
	if fr.loops.back[[2]int{from.Index, to.Index}] {
		fr.backEdge(from, to, n)
		return
	}
	fr.edges[[2]int{from.Index, to.Index}] = n
}

func (fr *Frame) doPanic(x *ssa.Panic, st *State) {
	fx := fr.fx
	label := "explicit"
	if fr.site != "" {
		label += "@" + fr.site
	}
	label += ":" + fx.eng.snippet(x.Pos(), x.X)
	if fx.contract != nil && fx.contract.Flags["maypanic"] && fr.top {
		return
	}
	fx.oblige(st, "panic", label, False, x.Pos())
}

func (fr *Frame) doReturn(x *ssa.Return, st *State) {
	var vals []Val
	for _, r := range x.Results {
		if c, ok := r.(*ssa.Const); ok && c.Value == nil && isStruct(c.Type()) {
			// `return T{}`: the zero value of a struct type is a fresh object with every field zero (the constant itself
			// would denote reference 0, whose fields nothing constrains)
			obj := fr.fx.alloc(st)
			fr.fx.zeroStruct(st, obj, c.Type(), 0)
			vals = append(vals, tv(obj))
			continue
		}
		vals = append(vals, fr.val(r))
	}
	fr.rets = append(fr.rets, returnInfo{st: st, vals: vals, blk: x.Block()})
}


// loopGhostMods: ghost flags that an event inside the loop body may set or clear.
func (fr *Frame) loopGhostMods(h int) map[string]bool {
	out := map[string]bool{}
	fx := fr.fx
	if !fr.top || fx.contract == nil || (len(fx.contract.GhostSets) == 0 && len(fx.contract.GhostClrs) == 0) {
		return out
	}
	var events []string
	for bi := range fr.loops.body[h] {
		for _, in := range fr.fn.Blocks[bi].Instrs {
			switch x := in.(type) {
			case ssa.CallInstruction:
				c := x.Common()
				name := "dynamic"
				if c.IsInvoke() {
					name = "iface:" + ifaceMethodName(c.Value.Type(), c.Method)
				} else if sc := c.StaticCallee(); sc != nil {
					name = fx.eng.shortName(sc)
				}
				if _, isDefer := in.(*ssa.Defer); isDefer {
					events = append(events, "defer:"+name)
				} else {
					events = append(events, "call:"+name)
				}
			case *ssa.MapUpdate:
				events = append(events, "mapupdate:"+typeKey(x.Map.Type()))
			case *ssa.Lookup:
				events = append(events, "lookup:"+typeKey(x.X.Type()))
			case *ssa.Store:
				ks, _ := fx.eng.keyOfAddr(x.Addr)
				for k := range ks {
					events = append(events, "store:"+k, "setfield:"+k)
				}
				if fa, ok := x.Addr.(*ssa.FieldAddr); ok {
					if pt, ok := fa.X.Type().Underlying().(*types.Pointer); ok {
						if stT, ok := pt.Elem().Underlying().(*types.Struct); ok {
							events = append(events, "setfield:"+fieldKey(pt.Elem(), stT.Field(fa.Field).Name()))
						}
					}
				}
			}
		}
	}
	// iteration-start events of this loop and of the loops nested in it
	for h2, body2 := range fr.loops.body {
		if fr.loops.body[h][h2] || h2 == h {
			_ = body2
			events = append(events, fmt.Sprintf("iter:%d", fr.loops.ordinal[h2]))
		}
	}
	for _, ev := range events {
		for _, g := range fx.contract.GhostSets {
			if globMatch(g.Glob, ev) {
				out[g.Label] = true
			}
		}
		for _, g := range fx.contract.GhostClrs {
			if globMatch(g.Glob, ev) {
				out[g.Label] = true
			}
		}
	}
	return out
}


// local struct helpers: copy between a frame-local struct variable and a heap struct object
func (fx *FnExec) localLV(key string, ft types.Type) *LV {
	if _, ok := fx.eng.localOwner[key]; !ok {
		fx.eng.localOwner[key] = fx.eng.localOwner[rootLocalKey(fx.eng, key)]
	}
	return &LV{Key: key, Ref: Int(1), Sort: sortOf(ft), IsRef: isRefTy(ft)}
}

func (fx *FnExec) zeroLocalStruct(st *State, ls *LocalStruct, depth int) {
	if depth > 4 {
		return
	}
	for _, f := range structFields(ls.Ty) {
		k := ls.Key + "." + f.Name()
		if isStruct(f.Type()) {
			fx.zeroLocalStruct(st, &LocalStruct{Key: k, Ty: f.Type()}, depth+1)
		} else if !isArray(f.Type()) {
			fx.writeLV(st, fx.localLV(k, f.Type()), zeroOf(f.Type()))
		}
	}
}

// heap object (src ref) -> local
func (fx *FnExec) copyToLocal(st *State, ls *LocalStruct, src Term, depth int) {
	if depth > 4 {
		return
	}
	for _, f := range structFields(ls.Ty) {
		k := ls.Key + "." + f.Name()
		hk := fieldKey(ls.Ty, f.Name())
		if isStruct(f.Type()) {
			fx.copyToLocal(st, &LocalStruct{Key: k, Ty: f.Type()}, fx.subRef(src, hk), depth+1)
		} else if !isArray(f.Type()) {
			s := sortOf(f.Type())
			fx.writeLV(st, fx.localLV(k, f.Type()), fx.readLV(st, &LV{Key: hk, Ref: src, Sort: s, IsRef: isRefTy(f.Type())}))
		}
	}
}

// local -> heap object (dst ref)
func (fx *FnExec) copyFromLocal(st *State, dst Term, ls *LocalStruct, depth int) {
	if depth > 4 {
		return
	}
	for _, f := range structFields(ls.Ty) {
		k := ls.Key + "." + f.Name()
		hk := fieldKey(ls.Ty, f.Name())
		if isStruct(f.Type()) {
			fx.copyFromLocal(st, fx.subRef(dst, hk), &LocalStruct{Key: k, Ty: f.Type()}, depth+1)
		} else if !isArray(f.Type()) {
			s := sortOf(f.Type())
			fx.writeLV(st, &LV{Key: hk, Ref: dst, Sort: s}, fx.readLV(st, fx.localLV(k, f.Type())))
		}
	}
}


func (fx *FnExec) anchorHit(a string) {
	if fx.anchorHits == nil {
		fx.anchorHits = map[string]int{}
	}
	fx.anchorHits[a]++
}
