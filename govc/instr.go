package main

import (
	"fmt"
	"os"
	"go/constant"
	"go/token"
	"go/types"
	"strings"

	"golang.org/x/tools/go/ssa"
)

func (fr *Frame) val(v ssa.Value) Val {
	fx := fr.fx
	switch x := v.(type) {
	case *ssa.Const:
		return tv(fx.constTerm(x))
	case *ssa.Function:
		return Val{Fn: x, Known: true}
	case *ssa.Global:
		return fx.globalVal(x)
	case *ssa.FreeVar:
		if val, ok := fr.free[x]; ok {
			return val
		}
		return tv(fx.ctx.Const("free!"+fr.fn.Name()+"!"+x.Name(), sortOf(x.Type())))
	case *ssa.Builtin:
		return Val{Known: true}
	}
	if val, ok := fr.vals[v]; ok {
		return val
	}
	// not yet computed (e.g. defined in a block that was skipped): unknown
	t := fx.ctx.Const(fmt.Sprintf("undef!%s!%s", fr.fn.Name(), v.Name()), sortOf(v.Type()))
	return tv(t)
}

func (fx *FnExec) constTerm(c *ssa.Const) Term {
	t := c.Type()
	if c.Value == nil {
		return zeroOf(t)
	}
	switch c.Value.Kind() {
	case constant.Bool:
		if constant.BoolVal(c.Value) {
			return True
		}
		return False
	case constant.String:
		return StrLit(constant.StringVal(c.Value))
	case constant.Int:
		if sortOf(t) == SReal {
			return Term{c.Value.ExactString() + ".0", SReal}
		}
		s := c.Value.ExactString()
		if strings.HasPrefix(s, "-") {
			return Term{"(- " + s[1:] + ")", SInt}
		}
		return Term{s, SInt}
	case constant.Float:
		if sortOf(t) == SInt {
			if i, ok := constant.Int64Val(constant.ToInt(c.Value)); ok {
				return Int(i)
			}
		}
		f, _ := constant.Float64Val(c.Value)
		s := fmt.Sprintf("%f", f)
		if strings.HasPrefix(s, "-") {
			return Term{"(- " + s[1:] + ")", SReal}
		}
		return Term{s, SReal}
	}
	return fx.ctx.Fresh("const", sortOf(t))
}

func (fx *FnExec) globalVal(g *ssa.Global) Val {
	elem := g.Type().(*types.Pointer).Elem()
	name := g.Pkg.Pkg.Name() + "." + g.Name()
	if isStruct(elem) || isArray(elem) {
		a := fx.ctx.Const("gaddr!"+name, SInt)
		fx.ctx.RawOnce("gaddrax!"+name, fmt.Sprintf("(assert (and (> %s 0) (<= %s %s)))", a.S, a.S, fx.entry.wm.S))
		return tv(a)
	}
	s := sortOf(elem)
	return Val{LV: &LV{Key: "Glob." + name, Ref: Int(1), Sort: s}, Known: true}
}

func (fr *Frame) set(v ssa.Value, val Val) { fr.vals[v] = val }

func (fr *Frame) siteLabel(kind string, pos token.Pos, n ssa.Node) string {
	l := kind
	if fr.site != "" {
		l += "@" + fr.site
	}
	return l + ":" + fr.fx.eng.snippetNode(pos, fr.fn, n)
}

func (fr *Frame) execInstr(in ssa.Instruction, st *State) {
	fx := fr.fx
	switch x := in.(type) {
	case *ssa.Alloc:
		elem := x.Type().(*types.Pointer).Elem()
		lo2 := st.wm
		defer func() {
			if fr.top && (isStruct(elem) || isArray(elem)) && fx.eng.isPrivateSite(x) {
				fx.notePrivate(st, lo2, st.wm)
			}
		}()
		r := fx.alloc(st)
		switch {
		case isStruct(elem):
			if k, ok := fx.eng.localKey(x); ok {
				ls := &LocalStruct{Key: k, Ty: elem}
				fx.zeroLocalStruct(st, ls, 0)
				fr.set(x, Val{LS: ls, Known: true})
				return
			}
			fx.zeroStruct(st, r, elem, 0)
		case isArray(elem):
			at := elem.Underlying().(*types.Array)
			es := sortOf(at.Elem())
			key := elemKey(es)
			inner := ArraySort(SInt, es)
			arr := fx.heapGet(st, key, ArraySort(SInt, inner))
			if isStruct(at.Elem()) {
				// arrays of struct values: each cell refers to its own (zeroed) element object
				cells := Term{fmt.Sprintf("((as const %s) 0)", inner), inner}
				if at.Len() <= 8 {
					for i := int64(0); i < at.Len(); i++ {
						obj := fx.alloc(st)
						fx.zeroStruct(st, obj, at.Elem(), 0)
						cells = Store(cells, Int(i), obj)
					}
				} else {
					cells = fx.ctx.Fresh("structcells", inner)
					fx.note("large array of struct values: element objects unconstrained")
				}
				arr = fx.heapGet(st, key, ArraySort(SInt, inner))
				fx.heapSet(st, key, Store(arr, r, cells))
			} else {
				fx.heapSet(st, key, Store(arr, r, Term{fmt.Sprintf("((as const %s) %s)", inner, zeroOf(at.Elem()).S), inner}))
			}
		default:
			s := sortOf(elem)
			if k, ok := fx.eng.localKey(x); ok {
				lv := &LV{Key: k, Ref: Int(1), Sort: s, IsRef: isRefTy(elem)}
				fx.writeLV(st, lv, zeroOf(elem))
				fr.set(x, Val{LV: lv, Known: true})
				return
			}
			lv := &LV{Key: cellKey(s), Ref: r, Sort: s}
			fx.writeLV(st, lv, zeroOf(elem))
		}
		fr.set(x, tv(r))
	case *ssa.BinOp:
		fr.set(x, tv(fr.binop(x, st)))
	case *ssa.UnOp:
		fr.unop(x, st)
	case *ssa.Call:
		res := fr.call(x.Common(), x, st, x.Pos())
		fr.set(x, res)
	case *ssa.ChangeInterface:
		fr.set(x, fr.val(x.X))
	case *ssa.ChangeType:
		fr.set(x, fr.val(x.X))
	case *ssa.Convert:
		fr.convert(x, st)
	case *ssa.MultiConvert:
		fr.set(x, fx.freshVal(st, "conv", x.Type()))
	case *ssa.Extract:
		t := fr.val(x.Tuple)
		if x.Index < len(t.Tuple) {
			fr.set(x, t.Tuple[x.Index])
		} else {
			fr.set(x, fx.freshVal(st, "extract", x.Type()))
		}
	case *ssa.Field:
		base := fx.materialize(fr.val(x.X), x.X.Type())
		stT := x.X.Type()
		f := stT.Underlying().(*types.Struct).Field(x.Field)
		key := fieldKey(stT, f.Name())
		if isStruct(f.Type()) || isArray(f.Type()) {
			fr.set(x, tv(fx.subRef(base, key)))
		} else {
			s := sortOf(f.Type())
			lv := &LV{Key: key, Ref: base, Sort: s, IsRef: isRefTy(f.Type())}
			t := fx.ctx.Define(x.Name(), fx.readLV(st, lv))
			fx.wellFormed(st, t, f.Type())
			fr.set(x, tv(t))
		}
	case *ssa.FieldAddr:
		pv := fr.val(x.X)
		if pv.LS != nil {
			f := pv.LS.Ty.Underlying().(*types.Struct).Field(x.Field)
			k := pv.LS.Key + "." + f.Name()
			if isStruct(f.Type()) {
				fr.set(x, Val{LS: &LocalStruct{Key: k, Ty: f.Type()}, Known: true})
			} else {
				fr.set(x, Val{LV: fx.localLV(k, f.Type()), Known: true})
			}
			return
		}
		p := fx.materialize(pv, x.X.Type())
		stT := x.X.Type().Underlying().(*types.Pointer).Elem()
		f := stT.Underlying().(*types.Struct).Field(x.Field)
		fx.oblige(st, "panic", fr.siteLabel("nil-deref", x.Pos(), x), Not(Eq(p, Nil)), x.Pos())
		key := fieldKey(stT, f.Name())
		if isStruct(f.Type()) || isArray(f.Type()) {
			fr.set(x, tv(fx.subRef(p, key)))
		} else {
			fr.set(x, Val{LV: &LV{Key: key, Ref: p, Sort: sortOf(f.Type()), IsRef: isRefTy(f.Type())}, Known: true})
		}
	case *ssa.Index:
		fr.index(x, st)
	case *ssa.IndexAddr:
		fr.indexAddr(x, st)
	case *ssa.Lookup:
		fr.lookup(x, st)
	case *ssa.MakeClosure:
		fn := x.Fn.(*ssa.Function)
		var binds []Val
		for _, b := range x.Bindings {
			binds = append(binds, fr.val(b))
		}
		r := fx.alloc(st)
		fr.set(x, Val{T: r, Fn: fn, Bind: binds, Known: true})
	case *ssa.MakeInterface:
		fr.makeInterface(x, st)
	case *ssa.MakeMap:
		lo0 := st.wm
		defer func() {
			if fr.top && fx.eng.isPrivateSite(x) {
				fx.notePrivate(st, lo0, st.wm)
			}
		}()
		r := fx.alloc(st)
		mt := x.Type().Underlying().(*types.Map)
		dk, _, ks, _ := mapKeys(mt)
		dom := fx.heapGet(st, dk, ArraySort(SInt, ArraySort(ks, SBool)))
		fx.heapSet(st, dk, Store(dom, r, Term{fmt.Sprintf("((as const %s) false)", ArraySort(ks, SBool)), ArraySort(ks, SBool)}))
		fx.mapLenSet(st, r, Int(0))
		fr.set(x, tv(r))
		if os.Getenv("GOVC_DEBUG") != "" {
			fmt.Fprintf(os.Stderr, "MakeMap %s -> %s\n", x.Name(), r.S)
		}
	case *ssa.MakeSlice:
		lo1 := st.wm
		defer func() {
			if fr.top && fx.eng.isPrivateSite(x) {
				fx.notePrivate(st, lo1, st.wm)
			}
		}()
		r := fx.alloc(st)
		ln := fx.materialize(fr.val(x.Len), nil)
		cp := fx.materialize(fr.val(x.Cap), nil)
		fx.oblige(st, "panic", fr.siteLabel("makeslice", x.Pos(), x), And(Ge(ln, Int(0)), Le(ln, cp)), x.Pos())
		et := x.Type().Underlying().(*types.Slice).Elem()
		es := sortOf(et)
		key := elemKey(es)
		inner := ArraySort(SInt, es)
		arr := fx.heapGet(st, key, ArraySort(SInt, inner))
		if isStruct(et) {
			fx.heapSet(st, key, Store(arr, r, fx.ctx.Fresh("structelems", inner)))
		} else {
			fx.heapSet(st, key, Store(arr, r, Term{fmt.Sprintf("((as const %s) %s)", inner, zeroOf(et).S), inner}))
		}
		fr.set(x, tv(fx.ctx.Define(x.Name(), MkSlice(r, Int(0), ln, cp))))
	case *ssa.MapUpdate:
		fr.mapUpdate(x, st)
	case *ssa.Next:
		fr.next(x, st)
	case *ssa.Range:
		fr.set(x, Val{Iter: &iterInfo{Coll: fr.val(x.X), Ty: x.X.Type()}, Known: true})
		if isMap(x.X.Type()) {
			// ghost counter of the iteration: index of the entry handed out last (-1 before the first)
			k := fr.fx.eng.iterKey(x)
			fr.fx.keySort[k] = SInt
			st.heap[k] = Int(-1)
		}
	case *ssa.Slice:
		fr.sliceOp(x, st)
	case *ssa.Store:
		fr.store(x, st)
	case *ssa.TypeAssert:
		fr.typeAssert(x, st)
	case *ssa.Defer:
		if fr.top && fx.contract != nil {
			// `defer:<callee>` event: the call is registered to run when the function returns
			name := "dynamic"
			if x.Call.IsInvoke() {
				name = "iface:" + ifaceMethodName(x.Call.Value.Type(), x.Call.Method)
			} else if sc := x.Call.StaticCallee(); sc != nil {
				name = fx.eng.shortName(sc)
			}
			fr.ghostAnchors("defer:"+name, st)
		}
		fr.defers = append(fr.defers, x)
		fr.deferPCs = append(fr.deferPCs, st.pc)
		var vs []Val
		vs = append(vs, fr.val(x.Call.Value))
		for _, a := range x.Call.Args {
			vs = append(vs, fr.val(a))
		}
		fr.deferVals = append(fr.deferVals, vs)
	case *ssa.RunDefers:
		fr.runDefers(st, x.Block())
	case *ssa.Go:
		// the goroutine body is verified separately; the spawn havocs what the callee may write
		fr.call(x.Common(), nil, st, x.Pos())
		fx.note("goroutine spawn treated as an immediate call for heap effects; interleavings not modelled")
	case *ssa.Send, *ssa.Select, *ssa.MakeChan:
		fx.note("channel operation: heap havoced (outside subset)")
		fx.newEpoch(st)
		if v, ok := in.(ssa.Value); ok {
			fr.set(v, fx.freshVal(st, "chan", v.Type()))
		}
	case *ssa.SliceToArrayPointer:
		fr.set(x, fx.freshVal(st, "s2a", x.Type()))
	default:
		fx.unsupported = append(fx.unsupported, fmt.Sprintf("instruction %T in %s", in, fr.fn.Name()))
		if v, ok := in.(ssa.Value); ok {
			fr.set(v, fx.freshVal(st, "unsupported", v.Type()))
		}
	}
}

func (fr *Frame) binop(x *ssa.BinOp, st *State) Term {
	fx := fr.fx
	a := fx.materialize(fr.val(x.X), x.X.Type())
	b := fx.materialize(fr.val(x.Y), x.Y.Type())
	srt := sortOf(x.X.Type())
	wrap := func(t Term) Term {
		if fx.wrap64 && srt == SInt {
			if bt, ok := x.Type().Underlying().(*types.Basic); ok {
				switch bt.Kind() {
				case types.Int64, types.Int:
					return Term{"(wrap64 " + t.S + ")", SInt}
				case types.Int32:
					return Term{"(wrap32 " + t.S + ")", SInt}
				}
			}
		}
		return t
	}
	var r Term
	switch x.Op {
	case token.ADD:
		if srt == SString {
			r = Term{"(str.++ " + a.S + " " + b.S + ")", SString}
		} else {
			r = wrap(Add(a, b))
		}
	case token.SUB:
		r = wrap(Sub(a, b))
	case token.MUL:
		r = wrap(Term{"(* " + a.S + " " + b.S + ")", srt})
	case token.QUO:
		if srt == SReal {
			r = Term{"(/ " + a.S + " " + b.S + ")", SReal}
		} else {
			fx.oblige(st, "panic", fr.siteLabel("div-zero", x.Pos(), x), Not(Eq(b, Int(0))), x.Pos())
			r = wrap(Term{"(godiv " + a.S + " " + b.S + ")", SInt})
		}
	case token.REM:
		fx.oblige(st, "panic", fr.siteLabel("div-zero", x.Pos(), x), Not(Eq(b, Int(0))), x.Pos())
		r = Term{"(gomod " + a.S + " " + b.S + ")", SInt}
	case token.EQL:
		r = fx.eqTerm(a, b, x.X.Type())
	case token.NEQ:
		r = Not(fx.eqTerm(a, b, x.X.Type()))
	case token.LSS, token.LEQ, token.GTR, token.GEQ:
		if srt == SString {
			switch x.Op {
			case token.LSS:
				r = Term{"(str.< " + a.S + " " + b.S + ")", SBool}
			case token.LEQ:
				r = Term{"(str.<= " + a.S + " " + b.S + ")", SBool}
			case token.GTR:
				r = Term{"(str.< " + b.S + " " + a.S + ")", SBool}
			default:
				r = Term{"(str.<= " + b.S + " " + a.S + ")", SBool}
			}
		} else {
			op := map[token.Token]string{token.LSS: "<", token.LEQ: "<=", token.GTR: ">", token.GEQ: ">="}[x.Op]
			r = Term{"(" + op + " " + a.S + " " + b.S + ")", SBool}
		}
	case token.AND, token.OR, token.XOR, token.SHL, token.SHR, token.AND_NOT:
		if srt == SBool {
			switch x.Op {
			case token.AND:
				r = And(a, b)
			case token.OR:
				r = Or(a, b)
			default:
				r = Not(Eq(a, b))
			}
		} else {
			f := fx.ctx.DeclFun("bitop!"+x.Op.String(), []Sort{SInt, SInt}, SInt)
			r = App(SInt, f, a, b)
			fx.note("bit operation " + x.Op.String() + " uninterpreted")
		}
	default:
		r = fx.ctx.Fresh("binop", sortOf(x.Type()))
	}
	return fx.ctx.Define(x.Name(), r)
}

func (fx *FnExec) eqTerm(a, b Term, t types.Type) Term {
	if isStruct(t) {
		// struct value equality: fieldwise on snapshot refs (approximated by ref equality is unsound) -> uninterpreted
		f := fx.ctx.DeclFun("structeq!"+typeKey(t), []Sort{SInt, SInt}, SBool)
		fx.note("struct value comparison uninterpreted")
		return App(SBool, f, a, b)
	}
	if sortOf(t) == SSlice {
		// only comparison with nil is legal
		return Eq(SlBase(a), SlBase(b))
	}
	return Eq(a, b)
}

func (fr *Frame) unop(x *ssa.UnOp, st *State) {
	fx := fr.fx
	switch x.Op {
	case token.MUL: // load
		pv := fr.val(x.X)
		elem := x.X.Type().Underlying().(*types.Pointer).Elem()
		if pv.LS != nil {
			r := fx.alloc(st)
			fx.copyFromLocal(st, r, pv.LS, 0)
			fr.set(x, tv(r))
			return
		}
		if pv.LV == nil {
			fx.oblige(st, "panic", fr.siteLabel("nil-deref", x.Pos(), x), Not(Eq(pv.T, Nil)), x.Pos())
		}
		if isStruct(elem) {
			src := fx.materialize(pv, x.X.Type())
			if structLoadIsReadOnly(x) {
				// the copy is only read, immediately: it may share the original's storage
				fr.set(x, tv(src))
				return
			}
			r := fx.alloc(st)
			fx.copyStruct(st, r, src, elem, 0)
			fr.set(x, tv(r))
			return
		}
		if isArray(elem) {
			src := fx.materialize(pv, x.X.Type())
			at := elem.Underlying().(*types.Array)
			es := sortOf(at.Elem())
			key := elemKey(es)
			inner := ArraySort(SInt, es)
			arr := fx.heapGet(st, key, ArraySort(SInt, inner))
			r := fx.alloc(st)
			fx.heapSet(st, key, Store(arr, r, Select(arr, src, inner)))
			fr.set(x, tv(r))
			return
		}
		lv := fx.pointee(pv, elem)
		t := fx.ctx.Define(x.Name(), fx.readLV(st, lv))
		fx.wellFormed(st, t, elem)
		fr.set(x, tv(t))
	case token.NOT:
		fr.set(x, tv(Not(fx.materialize(fr.val(x.X), nil))))
	case token.SUB:
		a := fx.materialize(fr.val(x.X), nil)
		r := Term{"(- " + a.S + ")", a.Sort}
		if fx.wrap64 && a.Sort == SInt {
			r = Term{"(wrap64 " + r.S + ")", SInt}
		}
		fr.set(x, tv(r))
	case token.XOR:
		f := fx.ctx.DeclFun("bitnot", []Sort{SInt}, SInt)
		fr.set(x, tv(App(SInt, f, fx.materialize(fr.val(x.X), nil))))
	case token.ARROW:
		fx.note("channel receive: heap havoced (outside subset)")
		fx.newEpoch(st)
		fr.set(x, fx.freshVal(st, "recv", x.Type()))
	default:
		fr.set(x, fx.freshVal(st, "unop", x.Type()))
	}
}

func (fr *Frame) store(x *ssa.Store, st *State) {
	fx := fr.fx
	pv := fr.val(x.Addr)
	elem := x.Addr.Type().Underlying().(*types.Pointer).Elem()
	v := fr.val(x.Val)
	if pv.LS != nil {
		fx.copyToLocal(st, pv.LS, fx.materialize(v, elem), 0)
		return
	}
	if pv.LV == nil {
		fx.oblige(st, "panic", fr.siteLabel("nil-deref", x.Pos(), x), Not(Eq(pv.T, Nil)), x.Pos())
	}
	if isStruct(elem) {
		dst := fx.materialize(pv, x.Addr.Type())
		fx.frameWrite(st, dst, "struct "+typeKey(elem), x.Pos(), fr)
		// a whole-struct assignment is a store to each of its scalar fields: store anchors see them one by one
		if fr.top && fx.contract != nil {
			src := fx.materialize(v, elem)
			for _, f := range structFields(elem) {
				if isStruct(f.Type()) || isArray(f.Type()) {
					continue
				}
				key := fieldKey(elem, f.Name())
				fr.ghostAnchors("store:"+key, st)
				if len(fx.contract.Asserts) > 0 {
					fv := fx.readLV(st, &LV{Key: key, Ref: src, Sort: sortOf(f.Type())})
					fr.storeAsserts("store:"+key, st, x.Pos(), x.Block(), SVal{V: tv(fv), Ty: f.Type()}, SVal{V: tv(dst), Ty: x.Addr.Type()})
				}
			}
		}
		fx.copyStruct(st, dst, fx.materialize(v, elem), elem, 0)
		return
	}
	if isArray(elem) {
		dst := fx.materialize(pv, x.Addr.Type())
		at := elem.Underlying().(*types.Array)
		es := sortOf(at.Elem())
		key := elemKey(es)
		inner := ArraySort(SInt, es)
		arr := fx.heapGet(st, key, ArraySort(SInt, inner))
		fx.heapSet(st, key, Store(arr, dst, Select(arr, fx.materialize(v, elem), inner)))
		return
	}
	lv := fx.pointee(pv, elem)
	if fr.top && fx.contract != nil && strings.HasPrefix(lv.Key, "F.") {
		fr.ghostAnchors("store:"+lv.Key, st)
		fr.ghostAnchors("setfield:"+lv.Key, st)
	}
	if fr.top && fx.contract != nil && len(fx.contract.Asserts) > 0 && strings.HasPrefix(lv.Key, "F.") {
		var ownerTy types.Type
		if fa, ok := x.Addr.(*ssa.FieldAddr); ok {
			ownerTy = fa.X.Type()
		}
		fr.storeAsserts("store:"+lv.Key, st, x.Pos(), x.Block(), SVal{V: v, Ty: elem}, SVal{V: tv(lv.Ref), Ty: ownerTy})
		// `setfield:` is the same event for assignments to the field itself only (whole-struct copies do not raise it)
		fr.storeAsserts("setfield:"+lv.Key, st, x.Pos(), x.Block(), SVal{V: v, Ty: elem}, SVal{V: tv(lv.Ref), Ty: ownerTy})
	}
	if fa, ok := x.Addr.(*ssa.FieldAddr); ok && fr.top && fx.contract != nil && !strings.HasPrefix(lv.Key, "F.") {
		// assignment to a field of a frame-local struct variable: raises the `setfield:` event of the field's type
		if pt, ok := fa.X.Type().Underlying().(*types.Pointer); ok {
			if stT, ok := pt.Elem().Underlying().(*types.Struct); ok {
				key := fieldKey(pt.Elem(), stT.Field(fa.Field).Name())
				fr.ghostAnchors("setfield:"+key, st)
				if len(fx.contract.Asserts) > 0 {
					fr.storeAsserts("setfield:"+key, st, x.Pos(), x.Block(), SVal{V: v, Ty: elem}, SVal{V: fr.val(fa.X), Ty: fa.X.Type()})
				}
			}
		}
	}
	fx.frameWriteLV(st, lv, x.Pos(), fr)
	// closures and function values stored in memory lose their static identity
	fx.writeLV(st, lv, fx.materialize(v, elem))
	if v.Fn != nil {
		fx.rememberFn(lv, v)
	}
}

func (fr *Frame) convert(x *ssa.Convert, st *State) {
	fx := fr.fx
	from, to := x.X.Type(), x.Type()
	fs, ts := sortOf(from), sortOf(to)
	v := fx.materialize(fr.val(x.X), from)
	switch {
	case fs == ts && fs != SSlice:
		if fs == SInt && !isRefLike(to) {
			// integer narrowing is treated as mathematical identity except uint8/byte
			if bt, ok := to.Underlying().(*types.Basic); ok && fx.wrap64 {
				switch bt.Kind() {
				case types.Int32:
					v = Term{"(wrap32 " + v.S + ")", SInt}
				}
			}
		}
		fr.set(x, tv(v))
	case fs == SInt && ts == SReal:
		fr.set(x, tv(Term{"(to_real " + v.S + ")", SReal}))
	case fs == SReal && ts == SInt:
		fr.set(x, tv(Term{"(to_int " + v.S + ")", SInt}))
	case fs == SInt && ts == SString:
		fr.set(x, tv(Term{"(str.from_code " + v.S + ")", SString}))
	case fs == SString && ts == SSlice:
		// []byte(s) / []rune(s)
		r := fx.alloc(st)
		f := fx.ctx.DeclFun("bytesOf", []Sort{SString}, ArraySort(SInt, SInt))
		key := elemKey(SInt)
		arr := fx.heapGet(st, key, ArraySort(SInt, ArraySort(SInt, SInt)))
		fx.heapSet(st, key, Store(arr, r, App(ArraySort(SInt, SInt), f, v)))
		ln := Term{"(str.len " + v.S + ")", SInt}
		fr.set(x, tv(MkSlice(r, Int(0), ln, ln)))
	case fs == SSlice && ts == SString:
		f := fx.ctx.DeclFun("stringOf", []Sort{ArraySort(SInt, SInt), SInt, SInt}, SString)
		key := elemKey(SInt)
		arr := fx.heapGet(st, key, ArraySort(SInt, ArraySort(SInt, SInt)))
		fr.set(x, tv(App(SString, f, Select(arr, SlBase(v), ArraySort(SInt, SInt)), SlOff(v), SlLen(v))))
	default:
		fr.set(x, fx.freshVal(st, "conv", to))
	}
}

func (fr *Frame) index(x *ssa.Index, st *State) {
	fx := fr.fx
	base := fx.materialize(fr.val(x.X), x.X.Type())
	idx := fx.materialize(fr.val(x.Index), nil)
	switch t := x.X.Type().Underlying().(type) {
	case *types.Array:
		fx.oblige(st, "panic", fr.siteLabel("index", x.Pos(), x), And(Ge(idx, Int(0)), Lt(idx, Int(t.Len()))), x.Pos())
		es := sortOf(t.Elem())
		lv := &LV{Key: elemKey(es), Ref: base, Idx: &idx, Sort: es, IsRef: isRefTy(t.Elem())}
		r := fx.ctx.Define(x.Name(), fx.readLV(st, lv))
		fx.wellFormed(st, r, t.Elem())
		fr.set(x, tv(r))
	default:
		// string / type param
		if sortOf(x.X.Type()) == SString {
			ln := Term{"(str.len " + base.S + ")", SInt}
			fx.oblige(st, "panic", fr.siteLabel("index", x.Pos(), x), And(Ge(idx, Int(0)), Lt(idx, ln)), x.Pos())
			r := fx.ctx.Define(x.Name(), Term{"(str.to_code (str.at " + base.S + " " + idx.S + "))", SInt})
			fx.assume(st, And(Ge(r, Int(0)), Le(r, Int(255))))
			fr.set(x, tv(r))
			return
		}
		fr.set(x, fx.freshVal(st, "index", x.Type()))
	}
}

func (fr *Frame) indexAddr(x *ssa.IndexAddr, st *State) {
	fx := fr.fx
	idx := fx.materialize(fr.val(x.Index), nil)
	var base, off, ln Term
	var et types.Type
	switch t := x.X.Type().Underlying().(type) {
	case *types.Slice:
		s := fx.materialize(fr.val(x.X), x.X.Type())
		base, off, ln = SlBase(s), SlOff(s), SlLen(s)
		et = t.Elem()
	case *types.Pointer:
		at := t.Elem().Underlying().(*types.Array)
		base = fx.materialize(fr.val(x.X), x.X.Type())
		off, ln = Int(0), Int(at.Len())
		et = at.Elem()
		fx.oblige(st, "panic", fr.siteLabel("nil-deref", x.Pos(), x), Not(Eq(base, Nil)), x.Pos())
	default:
		fr.set(x, fx.freshVal(st, "indexaddr", x.Type()))
		return
	}
	fx.oblige(st, "panic", fr.siteLabel("index", x.Pos(), x), And(Ge(idx, Int(0)), Lt(idx, ln)), x.Pos())
	es := sortOf(et)
	abs := fx.ctx.Define("idx", Add(off, idx))
	lv := &LV{Key: elemKey(es), Ref: base, Idx: &abs, Sort: es, IsRef: isRefTy(et)}
	if isStruct(et) {
		// slice of struct values: cells hold refs to per-element struct objects
		r := fx.ctx.Define(x.Name(), fx.readLV(st, lv))
		fx.assume(st, And(Gt(r, Int(0)), Le(r, st.wm)))
		fr.set(x, tv(r))
		return
	}
	fr.set(x, Val{LV: lv, Known: true})
}

func mapKeys(mt *types.Map) (domKey, valKey string, ks, vs Sort) {
	ks, vs = sortOf(mt.Key()), sortOf(mt.Elem())
	domKey = "MDom." + string(ks)
	valKey = "MVal." + string(ks) + "." + string(vs)
	return
}

func (fx *FnExec) mapLen(st *State, m Term) Term {
	arr := fx.heapGet(st, "MLen", ArraySort(SInt, SInt))
	return Select(arr, m, SInt)
}
func (fx *FnExec) mapLenSet(st *State, m Term, n Term) {
	arr := fx.heapGet(st, "MLen", ArraySort(SInt, SInt))
	fx.heapSet(st, "MLen", Store(arr, m, n))
}

func (fx *FnExec) mapDom(st *State, mt *types.Map, m Term) Term {
	dk, _, ks, _ := mapKeys(mt)
	dom := fx.heapGet(st, dk, ArraySort(SInt, ArraySort(ks, SBool)))
	return Select(dom, m, ArraySort(ks, SBool))
}
func (fx *FnExec) mapVals(st *State, mt *types.Map, m Term) Term {
	_, vk, ks, vs := mapKeys(mt)
	val := fx.heapGet(st, vk, ArraySort(SInt, ArraySort(ks, vs)))
	return Select(val, m, ArraySort(ks, vs))
}

// mapKeyTerm converts a key value; interface / struct keys are handled by their sort.
func (fr *Frame) lookup(x *ssa.Lookup, st *State) {
	fx := fr.fx
	if sortOf(x.X.Type()) == SString {
		s := fx.materialize(fr.val(x.X), x.X.Type())
		idx := fx.materialize(fr.val(x.Index), nil)
		ln := Term{"(str.len " + s.S + ")", SInt}
		fx.oblige(st, "panic", fr.siteLabel("index", x.Pos(), x), And(Ge(idx, Int(0)), Lt(idx, ln)), x.Pos())
		r := fx.ctx.Define(x.Name(), Term{"(str.to_code (str.at " + s.S + " " + idx.S + "))", SInt})
		fx.assume(st, And(Ge(r, Int(0)), Le(r, Int(255))))
		fr.set(x, tv(r))
		return
	}
	mt, ok := x.X.Type().Underlying().(*types.Map)
	if !ok {
		fr.set(x, fx.freshVal(st, "lookup", x.Type()))
		return
	}
	m := fx.materialize(fr.val(x.X), x.X.Type())
	k := fx.materialize(fr.val(x.Index), mt.Key())
	if fr.top {
		fr.evBlk = x.Block()
	}
	fr.eventAsserts("lookup:"+typeKey(x.X.Type()), st, x.Pos())
	fr.ghostAnchors("lookup:"+typeKey(x.X.Type()), st)
	_, _, ks, vs := mapKeys(mt)
	in := Select(fx.mapDom(st, mt, m), k, SBool)
	in = And(Not(Eq(m, Nil)), in)
	v := Ite(in, Select(fx.mapVals(st, mt, m), k, vs), zeroOf(mt.Elem()))
	_ = ks
	vt := fx.ctx.Define(x.Name(), v)
	fx.wellFormed(st, vt, mt.Elem())
	if x.CommaOk {
		fr.set(x, Val{Tuple: []Val{tv(vt), tv(fx.ctx.Define(x.Name()+"ok", in))}, Known: true})
	} else {
		fr.set(x, tv(vt))
	}
}

func (fr *Frame) mapUpdate(x *ssa.MapUpdate, st *State) {
	fx := fr.fx
	mt := x.Map.Type().Underlying().(*types.Map)
	m := fx.materialize(fr.val(x.Map), x.Map.Type())
	k := fx.materialize(fr.val(x.Key), mt.Key())
	v := fx.materialize(fr.val(x.Value), mt.Elem())
	fx.oblige(st, "panic", fr.siteLabel("nil-map-store", x.Pos(), x), Not(Eq(m, Nil)), x.Pos())
	if fr.top {
		fr.evBlk = x.Block()
	}
	fr.eventAsserts("mapupdate:"+typeKey(x.Map.Type()), st, x.Pos(), map[string]SVal{
		"mapkey":    {V: tv(k), Ty: mt.Key()},
		"maptarget": {V: tv(m), Ty: x.Map.Type()},
		"stored":    {V: tv(v), Ty: mt.Elem()},
	})
	fr.ghostAnchors("mapupdate:"+typeKey(x.Map.Type()), st)
	dk, vk, ks, vs := mapKeys(mt)
	fx.frameWrite(st, m, dk, x.Pos(), fr)
	domS := ArraySort(ks, SBool)
	valS := ArraySort(ks, vs)
	dom := fx.heapGet(st, dk, ArraySort(SInt, domS))
	val := fx.heapGet(st, vk, ArraySort(SInt, valS))
	was := Select(Select(dom, m, domS), k, SBool)
	ln := fx.mapLen(st, m)
	fx.mapLenSet(st, m, Ite(was, ln, Add(ln, Int(1))))
	fx.heapSet(st, dk, Store(dom, m, Store(Select(dom, m, domS), k, True)))
	fx.heapSet(st, vk, Store(val, m, Store(Select(val, m, valS), k, v)))
}

func (fr *Frame) next(x *ssa.Next, st *State) {
	fx := fr.fx
	it := fr.val(x.Iter)
	ok := fx.ctx.Fresh("next.ok", SBool)
	if x.IsString || it.Iter == nil {
		i := fx.ctx.Fresh("next.i", SInt)
		r := fx.ctx.Fresh("next.r", SInt)
		if it.Iter != nil {
			s := fx.materialize(it.Iter.Coll, it.Iter.Ty)
			fx.assume(st, Implies(ok, And(Ge(i, Int(0)), Lt(i, Term{"(str.len " + s.S + ")", SInt}))))
		}
		fr.set(x, Val{Tuple: []Val{tv(ok), tv(i), tv(r)}, Known: true})
		return
	}
	mt := it.Iter.Ty.Underlying().(*types.Map)
	m := fx.materialize(it.Iter.Coll, it.Iter.Ty)
	_, _, ks, vs := mapKeys(mt)
	k := fx.ctx.Fresh("next.k", ks)
	v := fx.ctx.Fresh("next.v", vs)
	fx.wellFormed(st, k, mt.Key())
	fx.wellFormed(st, v, mt.Elem())
	fx.assume(st, Implies(ok, And(Not(Eq(m, Nil)), Select(fx.mapDom(st, mt, m), k, SBool), Eq(v, Select(fx.mapVals(st, mt, m), k, vs)))))
	// enumeration model: the n-th entry handed out is iterkey(m, n), an injective enumeration of the key set, and the
	// iteration ends exactly when len(m) entries were handed out. Only sound while the loop leaves the map alone:
	// when the loop body may write a map of this key sort, only `ok => k in dom` above is assumed.
	if rg, isR := x.Iter.(*ssa.Range); isR {
		ik := fx.eng.iterKey(rg)
		n := fx.ctx.Define("iter.n", Add(fx.heapGet(st, ik, SInt), Int(1)))
		st.heap[ik] = n
		// the enumeration facts hold while the loop leaves the iterated map alone: either the loop writes no map of
		// this key sort at all, or (guard) this map's key set and size are what they were when the loop was entered
		guard := True
		usable := !fr.loopWritesMapOf(x, ks)
		if !usable {
			if pre := loopPres[fr][x.Block().Index]; pre != nil {
				domS := ArraySort(ks, SBool)
				dk, _, _, _ := mapKeys(mt)
				nowD := Select(fx.heapGet(st, dk, ArraySort(SInt, domS)), m, domS)
				preD := Select(fx.heapGet(pre, dk, ArraySort(SInt, domS)), m, domS)
				guard = fx.ctx.Define("iter.same", And(Eq(nowD, preD), Eq(fx.mapLen(st, m), fx.mapLen(pre, m))))
				usable = true
			}
		}
		if usable {
			saved := st.pc
			if guard.S != "true" {
				st = st.clone()
				st.pc = fx.ctx.Define("pc", And(saved, guard))
			}
			f := fx.ctx.DeclFun("iterkey."+string(ks), []Sort{SInt, SInt}, ks)
			inv := fx.ctx.DeclFun("iterkeyinv."+string(ks), []Sort{SInt, ks}, SInt)
			fx.ctx.RawOnce("iterkey-inj."+string(ks), fmt.Sprintf("(assert (forall ((m Int) (n Int)) (! (= (%s m (%s m n)) n) :pattern ((%s m n)))))", inv, f, f))
			ln := fx.mapLen(st, m)
			fx.assume(st, And(Ge(n, Int(0)), Le(n, Ite(Eq(m, Nil), Int(0), ln))))
			fx.assume(st, Eq(ok, Lt(n, Ite(Eq(m, Nil), Int(0), ln))))
			fx.assume(st, Implies(ok, Eq(k, Term{"(" + f + " " + m.S + " " + n.S + ")", ks})))
			// the enumeration is onto the key set: every key is handed out at its own position below len(m). Stated
			// only where the contract speaks of iterkey — elsewhere nothing can use it, and its instances slow the
			// solvers down on unrelated goals.
			if !fx.contractUsesIterKey() {
				fr.set(x, Val{Tuple: []Val{tv(ok), tv(k), tv(v)}, Known: true})
				return
			}
			fx.ctx.nfresh++
			qk := smtIdent(fmt.Sprintf("q!ek!%d", fx.ctx.nfresh))
			dom := fx.mapDom(st, mt, m)
			fx.assume(st, Term{fmt.Sprintf("(forall ((%s %s)) (=> (and (not (= %s 0)) (select %s %s)) (and (<= 0 (%s %s %s)) (< (%s %s %s) %s) (= (%s %s (%s %s %s)) %s))))",
				qk, ks, m.S, dom.S, qk, inv, m.S, qk, inv, m.S, qk, ln.S, f, m.S, inv, m.S, qk, qk), SBool})
		}
	}
	fr.set(x, Val{Tuple: []Val{tv(ok), tv(k), tv(v)}, Known: true})
}

func (fr *Frame) sliceOp(x *ssa.Slice, st *State) {
	fx := fr.fx
	var lo, hi, mx *Term
	get := func(v ssa.Value) *Term {
		if v == nil {
			return nil
		}
		t := fx.materialize(fr.val(v), nil)
		return &t
	}
	lo, hi, mx = get(x.Low), get(x.High), get(x.Max)
	if sortOf(x.X.Type()) == SString {
		s := fx.materialize(fr.val(x.X), x.X.Type())
		ln := Term{"(str.len " + s.S + ")", SInt}
		l, h := Int(0), ln
		if lo != nil {
			l = *lo
		}
		if hi != nil {
			h = *hi
		}
		fx.oblige(st, "panic", fr.siteLabel("slice-bounds", x.Pos(), x), And(Ge(l, Int(0)), Le(l, h), Le(h, ln)), x.Pos())
		fr.set(x, tv(fx.ctx.Define(x.Name(), Term{"(str.substr " + s.S + " " + l.S + " (- " + h.S + " " + l.S + "))", SString})))
		return
	}
	var base, off, ln, cp Term
	switch t := x.X.Type().Underlying().(type) {
	case *types.Slice:
		s := fx.materialize(fr.val(x.X), x.X.Type())
		base, off, ln, cp = SlBase(s), SlOff(s), SlLen(s), SlCap(s)
	case *types.Pointer:
		at := t.Elem().Underlying().(*types.Array)
		base = fx.materialize(fr.val(x.X), x.X.Type())
		off, ln, cp = Int(0), Int(at.Len()), Int(at.Len())
	default:
		fr.set(x, fx.freshVal(st, "slice", x.Type()))
		return
	}
	l, h, m := Int(0), ln, cp
	if lo != nil {
		l = *lo
	}
	if hi != nil {
		h = *hi
	}
	if mx != nil {
		m = *mx
	}
	// Go allows high up to cap
	fx.oblige(st, "panic", fr.siteLabel("slice-bounds", x.Pos(), x), And(Ge(l, Int(0)), Le(l, h), Le(h, m), Le(m, cp)), x.Pos())
	fr.set(x, tv(fx.ctx.Define(x.Name(), MkSlice(base, Add(off, l), Sub(h, l), Sub(m, l)))))
}

func (fr *Frame) makeInterface(x *ssa.MakeInterface, st *State) {
	fx := fr.fx
	t := x.X.Type()
	tag := Int(int64(fx.eng.typeID(t)))
	v := fr.val(x.X)
	var payload Term
	if isRefLike(t) || isStruct(t) || isArray(t) {
		payload = fx.materialize(v, t)
	} else {
		// box the scalar
		s := sortOf(t)
		payload = fx.alloc(st)
		lv := &LV{Key: "Box." + string(s), Ref: payload, Sort: s}
		fx.writeLV(st, lv, fx.materialize(v, t))
	}
	fr.set(x, tv(fx.ctx.Define(x.Name(), MkIface(tag, payload))))
}

func (fr *Frame) typeAssert(x *ssa.TypeAssert, st *State) {
	fx := fr.fx
	iv := fx.materialize(fr.val(x.X), x.X.Type())
	var ok Term
	var res Term
	at := x.AssertedType
	if isInterface(at) {
		f := fx.ctx.DeclFun("implements!"+typeKey(at), []Sort{SInt}, SBool)
		ok = And(Not(Eq(IfTag(iv), Int(0))), App(SBool, f, IfTag(iv)))
		// static knowledge: the source interface type implies the target when it is a superset
		if types.AssignableTo(x.X.Type(), at) {
			ok = Not(Eq(IfTag(iv), Int(0)))
		}
		res = iv
	} else {
		ok = Eq(IfTag(iv), Int(int64(fx.eng.typeID(at))))
		if isRefLike(at) || isStruct(at) || isArray(at) {
			res = IfVal(iv)
		} else {
			s := sortOf(at)
			lv := &LV{Key: "Box." + string(s), Ref: IfVal(iv), Sort: s}
			res = fx.readLV(st, lv)
		}
	}
	okT := fx.ctx.Define(x.Name()+"ok", ok)
	if x.CommaOk {
		r := Ite(okT, res, zeroOf(at))
		rt := fx.ctx.Define(x.Name(), r)
		fx.wellFormed(st, rt, at)
		fr.set(x, Val{Tuple: []Val{tv(rt), tv(okT)}, Known: true})
		return
	}
	fx.oblige(st, "panic", fr.siteLabel("type-assert", x.Pos(), x), okT, x.Pos())
	rt := fx.ctx.Define(x.Name(), res)
	fx.wellFormed(st, rt, at)
	fr.set(x, tv(rt))
}

// frame / frozen bookkeeping hooks (pure functions: all writes must hit fresh objects)
// perWrite: does the contract demand that every write of the function itself is justified (pure: only fresh objects;
// perwrite: fresh objects or a location listed under modifies)?
func (fx *FnExec) perWrite() bool {
	return fx.contract != nil && (fx.contract.Flags["pure"] || fx.contract.Flags["perwrite"]) && !fx.contract.Flags["trusted"]
}

// writeAllowed: the written object is fresh, or the location is listed in the contract's modifies clause.
func (fx *FnExec) writeAllowed(ref Term, key string) Term {
	// fresh object, or an interior (embedded struct / array) location of a fresh object: subref(p, k) <= -(1024*(wm0+1)) iff |p| > wm0;
	// nothing is ever written through nil (elems of a nil slice: no elements)
	alts := []Term{Gt(ref, fx.entry.wm), Eq(ref, Int(0)), Term{fmt.Sprintf("(<= %s (- (* 1024 (+ %s 1))))", ref.S, fx.entry.wm.S), SBool}}
	if fx.allowedWhole[key] {
		return True
	}
	for _, a := range fx.allowed[key] {
		alts = append(alts, Eq(ref, a))
	}
	return Or(alts...)
}

func (fx *FnExec) frameWrite(st *State, ref Term, key string, pos token.Pos, fr *Frame) {
	if strings.HasPrefix(key, "Local.") {
		return // frame-local variables are not memory a caller can see
	}
	if fx.perWrite() {
		label := "fresh-write"
		if fr != nil && fr.site != "" {
			label += "@" + fr.site
		}
		fx.oblige(st, "frame", label+":"+fx.eng.snippetNode(pos, fx.fn, nil), fx.writeAllowed(ref, key), pos)
	}
}

func (fx *FnExec) frameWriteLV(st *State, lv *LV, pos token.Pos, fr *Frame) {
	if strings.HasPrefix(lv.Key, "Glob.") {
		if fx.perWrite() && !fx.allowedWhole[lv.Key] {
			fx.oblige(st, "frame", "global-write:"+lv.Key, False, pos)
		}
		return
	}
	fx.frameWrite(st, lv.Ref, lv.Key, pos, fr)
}

func (fx *FnExec) rememberFn(lv *LV, v Val) {}


// structLoadIsReadOnly: the loaded struct value is used only by field reads located in the same block, with no
// store, call or map update between the load and the last of those reads — so no copy is needed.
func structLoadIsReadOnly(x *ssa.UnOp) bool {
	refs := x.Referrers()
	if refs == nil {
		return false
	}
	uses := map[ssa.Instruction]bool{}
	var pending []ssa.Value
	pending = append(pending, x)
	for len(pending) > 0 {
		v := pending[len(pending)-1]
		pending = pending[:len(pending)-1]
		rs := v.Referrers()
		if rs == nil {
			return false
		}
		for _, r := range *rs {
			switch f := r.(type) {
			case *ssa.DebugRef:
			case *ssa.Field:
				if f.Block() != x.Block() {
					return false
				}
				uses[f] = true
				if isStruct(f.Type()) {
					pending = append(pending, f) // nested struct field: its reads must be immediate too
				}
			case *ssa.Store:
				// copied at once into a frame-local struct variable: the copy happens at the store
				if f.Val != v || f.Block() != x.Block() || isLocalStructAddr == nil || !isLocalStructAddr(f.Addr) {
					return false
				}
				uses[f] = true
			default:
				return false
			}
		}
	}
	// scan the block from the load to the last use
	remaining := len(uses)
	started := false
	for _, in := range x.Block().Instrs {
		if in == ssa.Instruction(x) {
			started = true
			continue
		}
		if !started {
			continue
		}
		if remaining == 0 {
			break
		}
		if uses[in] {
			remaining--
			continue
		}
		switch in.(type) {
		case *ssa.Store, *ssa.MapUpdate, ssa.CallInstruction:
			return false
		}
	}
	return remaining == 0
}

// isLocalStructAddr is set by the engine: does this address denote a frame-local struct variable (or a nested field of one)?
var isLocalStructAddr func(ssa.Value) bool

// loopWritesMapOf: may the innermost loop around the Next instruction write the domain of a map with this key sort?
func (fr *Frame) loopWritesMapOf(x *ssa.Next, ks Sort) bool {
	li := fr.loops
	if li == nil {
		return true
	}
	h := -1
	for hdr, body := range li.body {
		if body[x.Block().Index] && (h < 0 || len(body) < len(li.body[h])) {
			h = hdr
		}
	}
	if h < 0 {
		return true
	}
	keys, any := fr.loopMods(h)
	if any {
		return true
	}
	_, ok := keys["MDom."+string(ks)]
	return ok
}

// contractUsesIterKey: some clause of the function's contract mentions iterkey, directly or through a spec function.
func (fx *FnExec) contractUsesIterKey() bool {
	if fx.iterKeyUse != 0 {
		return fx.iterKeyUse == 1
	}
	fx.iterKeyUse = 2
	ct := fx.contract
	if ct == nil {
		return false
	}
	// spec functions that reach iterkey
	reach := map[string]bool{}
	for changed := true; changed; {
		changed = false
		for name, sp := range fx.eng.contracts.Specs {
			if reach[name] {
				continue
			}
			hit := strings.Contains(sp.Src, "iterkey(")
			for r := range reach {
				if strings.Contains(sp.Src, specBase(r)+"(") {
					hit = true
				}
			}
			if hit {
				reach[name] = true
				changed = true
			}
		}
	}
	uses := func(src string) bool {
		if strings.Contains(src, "iterkey(") {
			return true
		}
		for r := range reach {
			if strings.Contains(src, specBase(r)+"(") {
				return true
			}
		}
		return false
	}
	var srcs []string
	for _, c := range ct.Requires {
		srcs = append(srcs, c.Src)
	}
	for _, c := range ct.Ensures {
		srcs = append(srcs, c.Src)
	}
	for _, l := range ct.Loops {
		for _, c := range l.Inv {
			srcs = append(srcs, c.Src)
		}
		for _, c := range l.Step {
			srcs = append(srcs, c.Src)
		}
	}
	for _, a := range ct.Asserts {
		srcs = append(srcs, a.Clause.Src)
	}
	for _, s := range srcs {
		if uses(s) {
			fx.iterKeyUse = 1
			return true
		}
	}
	return false
}

func specBase(key string) string {
	if i := strings.LastIndex(key, "::"); i >= 0 {
		return key[i+2:]
	}
	return key
}
