package datamodeldiagram

// Witness for C19: the Mermaid data-model diagram listed fields, enum values and types in Go map order.
// Run: cp to /repo/pkg/mermaid/datamodeldiagram/zz_c19_witness_test.go && go test ./pkg/mermaid/datamodeldiagram -run TestC19MermaidDataModelStable

import (
	"testing"

	"github.com/anz-bank/sysl/pkg/parse"
	"github.com/spf13/afero"
)

func TestC19MermaidDataModelStable(t *testing.T) {
	src := `App:
    !type T:
        alpha <: int
        beta <: string
        gamma <: bool
        delta <: int
        epsilon <: string
    !type U:
        a <: int
        b <: int
        c <: int
    !enum E:
        one: 1
        two: 2
        three: 3
        four: 4
`
	fs := afero.NewMemMapFs()
	_ = afero.WriteFile(fs, "/a.sysl", []byte(src), 0o644)
	m, err := parse.NewParser().ParseFromFs("/a.sysl", fs)
	if err != nil {
		t.Fatal(err)
	}
	first, err := GenerateFullDataDiagram(m)
	if err != nil {
		t.Fatal(err)
	}
	for i := 0; i < 50; i++ {
		again, _ := GenerateFullDataDiagram(m)
		if again != first {
			t.Fatalf("run %d differs from run 0:\n%s\n---\n%s", i+1, first, again)
		}
	}
}
