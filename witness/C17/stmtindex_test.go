package relmod_test

// Witness for C17: sibling statements nested four levels deep receive the same position path, because
// normalizeChildren builds each child's path with append(parentIndex, i) on a shared backing array.
// Run: cp this file to /repo/pkg/arrai/relmod/zz_c17_witness_test.go && go test ./pkg/arrai/relmod -run TestC17SiblingPaths

import (
	"context"
	"fmt"
	"testing"

	"github.com/anz-bank/sysl/pkg/arrai/relmod"
	"github.com/anz-bank/sysl/pkg/parse"
	"github.com/spf13/afero"
)

func TestC17SiblingPaths(t *testing.T) {
	src := `A:
    ep:
        if a:
            if b:
                if c:
                    x1
                    x2
                    x3
`
	fs := afero.NewMemMapFs()
	_ = afero.WriteFile(fs, "/a.sysl", []byte(src), 0o644)
	m, err := parse.NewParser().ParseFromFs("/a.sysl", fs)
	if err != nil {
		t.Fatal(err)
	}
	s, err := relmod.Normalize(context.Background(), m)
	if err != nil {
		t.Fatal(err)
	}
	seen := map[string]string{}
	for _, st := range s.Stmt {
		k := fmt.Sprint(st.StmtIndex)
		if prev, dup := seen[k]; dup {
			t.Errorf("statements %q and %q share the position path %s", prev, st.StmtAction, k)
		}
		seen[k] = st.StmtAction + fmt.Sprint(st.StmtCond)
	}
}
