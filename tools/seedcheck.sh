#!/bin/bash
# Must-fail corpus: apply every kept seeded change to /repo in turn, run the property's quick check, expect a
# VIOLATION line and exit 1, and undo the change. Requires a clean /repo working tree. Not part of any MANIFEST command.
cd "$(dirname "$0")/.."
if [ -n "$(git -C /repo status --porcelain)" ]; then echo "refusing: /repo has uncommitted changes"; exit 2; fi
rc=0
for d in seeded/*/; do
  id=$(basename "$d"); prop=${id%%-*}
  [ -n "$1" ] && [ "$1" != "$prop" ] && [ "$1" != "$id" ] && continue
  if ! git -C /repo apply "$PWD/$d/patch.diff" 2>/dev/null; then echo "$id: patch does not apply"; rc=1; continue; fi
  cp evidence/$prop.json /tmp/seedcheck_ev_$prop.json 2>/dev/null
  out=$(bin/check "$prop" 2>&1); ex=$?
  # the run on the changed tree rewrote the evidence file: put the clean-tree record back
  [ -f /tmp/seedcheck_ev_$prop.json ] && mv /tmp/seedcheck_ev_$prop.json evidence/$prop.json
  git -C /repo checkout -- . ; git -C /repo clean -fdq -- pkg cmd >/dev/null 2>&1
  n=$(echo "$out" | grep -c "^VIOLATION property=$prop ")
  if [ $ex -eq 1 ] && [ "$n" -gt 0 ]; then
    echo "$id: caught ($n) $(echo "$out" | grep -m1 'violated obligation' | cut -c1-150)"
  else
    echo "$id: MISSED (exit=$ex)"; rc=1
  fi
done
exit $rc
