#!/usr/bin/env python3
"""Regenerates /verif/MANIFEST.json from /verif/props/*.json (claimed checks) and tools/not_applicable.json."""
import json, os, glob, subprocess
V = '/verif'
props = [json.loads(l) for l in open(f'{V}/properties.jsonl')]
claimed = {}
for f in sorted(glob.glob(f'{V}/props/C*.json')):
    c = json.load(open(f))
    claimed[c['id']] = c
na = json.load(open(f'{V}/tools/not_applicable.json')) if os.path.exists(f'{V}/tools/not_applicable.json') else {}
levels = json.load(open(f'{V}/tools/levels.json')) if os.path.exists(f'{V}/tools/levels.json') else {}
try:
    hooks = subprocess.check_output(['git', '-C', '/repo', 'log', '--format=%H %s', '9f00f38..HEAD'], text=True).strip().splitlines()
except Exception:
    hooks = []
hook_commits = [h.split()[0] for h in hooks if ' verif:' in h or ' verif-hook' in h or 'contracts' in h]
checks = []
for p in props:
    i = p['id']
    if i not in claimed:
        continue
    c = claimed[i]
    lv = levels.get(i, {})
    checks.append({
        'property_id': i,
        'quick_cmd': f'bin/check {i} --tier quick',
        'thorough_cmd': f'bin/check {i} --tier thorough',
        'evidence_file': f'/verif/evidence/{i}.json',
        'replay_cmd_template': f'bin/check {i} --tier quick --replay {{path}}',
        'engine': 'govc',
        'level_claimed': {
            'category': 'proof',
            'text': lv.get('text', c.get('note', '')),
            'design_ref': f'DESIGN.md section 5 ({i}) and section 7',
        },
        'level_note': lv.get('note', 'trusted base: go/ssa front end, govc encoding, SMT solvers, trusted specs listed in the evidence; NOT DECIDED: ' + '; '.join(c.get('undecided', []))),
        'technique': lv.get('technique', 'contract-based deductive verification: //@ contracts on the real functions (pkg/*/zz_verif_contracts.go, build tag verif), weakest-precondition style VC generation over go/ssa, obligations discharged by z3/z3-new/cvc5'),
    })
m = {
    'version': 1,
    'setup_cmd': 'cd /verif/govc && GOFLAGS=-mod=mod GOPROXY=off GOSUMDB=off GOTOOLCHAIN=local go build -o /verif/bin/govc . && /verif/bin/govc selfcheck',
    'hooks': {
        'guard': 'verif',
        'enable': 'go build -tags verif ./...  (the tag only adds comment-only contract files pkg/<p>/zz_verif_contracts.go; no code)',
        'baseline_off_cmd': json.load(open('/root/.vp/BASELINE.json'))['cmd'],
        'source_commits': hook_commits,
        'add_only': True,
    },
    'engines': [{
        'name': 'govc',
        'path': '/verif/govc',
        'serves_properties': sorted(claimed.keys()),
        'kind_free_text': 'self-built deductive verifier for Go: contracts as //@ comments, VC generation over go/ssa (x/tools v0.29.0), SMT back ends z3 4.8.12 / z3-new 5.1.0 / cvc5 1.0 raced per obligation',
    }],
    'checks': checks,
    'notes': 'See DESIGN.md. Obligation baselines: /verif/obligations/<id>.list; known findings: /verif/known_findings.json; seeded must-fail corpus: /verif/seeded.',
    'not_applicable': [{'property_id': p['id'], 'reason': na.get(p['id'], 'check not built yet (engine coverage in progress); see DESIGN.md section 5 for the plan')} for p in props if p['id'] not in claimed],
}
json.dump(m, open(f'{V}/MANIFEST.json', 'w'), indent=1)
print('claimed:', sorted(claimed.keys()))
