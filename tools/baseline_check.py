#!/usr/bin/env python3
"""Runs `go test -json` on the given package patterns in /repo (guard off: no -tags) and checks that every test in
BASELINE.json's stable_pass list for those packages passes. usage: baseline_check.py ./pkg/eval ./cmd/sysl ... | all"""
import json, subprocess, sys, os
b = json.load(open('/root/.vp/BASELINE.json'))
stable = set(b['stable_pass'])
pats = sys.argv[1:] or ['./...']
if pats == ['all']:
    pats = ['./...']
env = dict(os.environ, GOFLAGS='-mod=mod', GOPROXY='off', GOSUMDB='off', GOTOOLCHAIN='local')
p = subprocess.run(['go', 'test', '-json', '-vet=off', '-count=1', '-timeout', '25m'] + pats, cwd='/repo', env=env, capture_output=True, text=True)
res = {}
pkgs = set()
for line in p.stdout.splitlines():
    try:
        e = json.loads(line)
    except Exception:
        continue
    if e.get('Test') and e.get('Action') in ('pass', 'fail', 'skip'):
        res[e['Package'] + '::' + e['Test']] = e['Action']
    if e.get('Package'):
        pkgs.add(e['Package'])
bad = [t for t in sorted(stable) if t.split('::')[0] in pkgs and res.get(t) != 'pass']
print(f'packages run: {len(pkgs)}; stable tests in them: {sum(1 for t in stable if t.split("::")[0] in pkgs)}; not passing: {len(bad)}')
for t in bad[:40]:
    print('  NOT PASSING:', t, res.get(t))
sys.exit(1 if bad else 0)
