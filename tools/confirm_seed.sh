#!/bin/sh
# confirm_seed.sh <id> <tag> <pkgdir> <runpattern>: confirms a seeded change in its scratch worktree /tmp/wt_<id>_<tag>
# (demo fails with the patch, passes without; affected package tests unchanged), stores it under /verif/seeded/<id>-<tag>/,
# and removes the worktree.
set -u; SEED_FLAGS=${SEED_FLAGS:-}
id=$1; tag=$2; pkg=$3; pat=$4
export GOFLAGS=-mod=mod GOPROXY=off GOSUMDB=off GOTOOLCHAIN=local
wt=/tmp/wt_${id}_${tag}; out=/tmp/out_${id}_${tag}; dst=/verif/seeded/${id}-${tag}
cd $wt || exit 2
git checkout -q -- . 2>/dev/null; find . -name zz_verif_contracts.go -delete
git apply $out/patch.diff || { echo "patch does not apply"; exit 2; }
go build ./... || { echo "does not build"; exit 2; }
cp $out/demo_test.go $pkg/zz_seed_demo_test.go
go test -count=1 $SEED_FLAGS -run "$pat" ./$pkg/ > /tmp/seed_with.txt 2>&1; with=$?
git apply -R $out/patch.diff
go test -count=1 $SEED_FLAGS -run "$pat" ./$pkg/ > /tmp/seed_without.txt 2>&1; without=$?
rm -f $pkg/zz_seed_demo_test.go
echo "demo with patch: exit $with ; without patch: exit $without"
[ $with -ne 0 ] && [ $without -eq 0 ] || { echo "NOT CONFIRMED"; exit 1; }
mkdir -p $dst && cp $out/patch.diff $out/demo_test.go $out/meta.json $dst/
tail -5 /tmp/seed_with.txt > $dst/demo_with_patch.txt; tail -3 /tmp/seed_without.txt > $dst/demo_without_patch.txt
cd /repo && git worktree remove --force $wt && rm -rf $out /tmp/seed_with.txt /tmp/seed_without.txt
echo CONFIRMED $dst
