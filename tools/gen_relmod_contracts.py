#!/usr/bin/env python3
"""Writes /repo/pkg/arrai/relmod/zz_verif_contracts.go (comment-only, build tag verif).

The relmod normalisers are nine near-identical families (App, Mixin, Ep, Event, Stmt, Param, Type, Field, View);
the contracts are written once here and expanded, so that the families stay in step. The generated file is what the
verifier reads; this script is only how it was typed."""

out = []
w = out.append

PFX = ("Tag", "Anno", "Src.Anno", "Src")


def meta_slices(x):
    return [f"{p}.{x}" for p in PFX]


def mods(*slcs):
    return ", ".join(f"s.{x}, elems(s.{x})" for x in slcs)


def owned(*slcs):
    """the slice still lives in the array it had at entry, or in one allocated since (append-only growth)"""
    return " && ".join(f"(base(s.{x}) == old(base(s.{x})) || fresh(s.{x}))" for x in slcs)


def kept(slc):
    return f"forall(i, 0, old(len(s.{slc})), s.{slc}[i] == old(s.{slc}[i]))"


def last(slc):
    return f"s.{slc}[len(s.{slc})-1]"


def head(fn, requires, slices, wellformed=None):
    """`s != nil` is the caller's business; everything else in `requires` is about the model being well-formed (no nil
    application, name, statement ... anywhere), which callers can only pass on, not establish."""
    w(f"//@ func {fn}")
    parts = [p.strip() for p in requires.split("&&")]
    own = [p for p in parts if p == "s != nil" or p.startswith("cap(")]
    model = [p for p in parts if p not in own]
    if wellformed:
        model.append(wellformed)
    w(f"//@   requires [schema] {' && '.join(own)}")
    if model:
        w(f"//@   requires [model-wellformed] {' && '.join(model)}")
    w(f"//@   modifies {mods(*slices)}")
    w("//@   perwrite")
    w(f"//@   ensures [rows-live-in-own-arrays] {owned(*slices)}")


w("""//go:build verif

// Contracts for the deductive verifier in /verif (govc). Comment-only: this file adds no code.
// Written by /verif/tools/gen_relmod_contracts.py.
package relmod

// ---- C17: the relational image has one row per construct, and nothing else changes
//
// Every normaliser is `perwrite`: each of its writes, and each effect of a callee, must hit either an object allocated
// during the call or a location listed under `modifies` (the Schema's row slices and their backing arrays). The model
// (*sysl.Module and everything below it) and every position path that already exists are therefore never written.

// Helpers that only read the model and build fresh values. tags / attrToValue panic on attribute shapes they do not
// know: those explicit panics are obligations of the panic class (known findings of C17).
//@ func tags
//@   pure
//@ func annos
//@   pure
//@   ensures result != nil
//@ func relmodSourceContexts
//@   pure
//@   ensures [one-per-context] len(result) == len(contexts)
//@   loop 0 invariant [count] len(srcs) == rangeindex + 1 && rangeindex + 1 <= len(contexts)
//@   loop 0 invariant [own-array] base(srcs) == 0 || fresh(srcs)
//@ func relmodSourceContext
//@   pure
//@ func parseFieldType
//@   pure
//@ func parseRestPath
//@   pure
//@   ensures [never-fails] result1 == nil
// The type of a return payload is resolved against the application that owns the return statement: it is produced
// by unpackType during this very call, with this call's application name (an unqualified reference means a type of
// the owning application). `pure` is an assumption here (the arr.ai evaluation inside is opaque): the frame
// obligations of the opaque calls stay undecided.
//@ func parseReturnPayload
//@   pure
//@   maypanic
//@   assert @call:arrai/relmod.unpackType [type-resolved-against-the-owning-application] arg1 == appName
//@   ghostset @call:arrai/relmod.unpackType unpacked
//@   ensures [returned-type-was-resolved-in-this-call] result0.Type != nil ==> ghost("unpacked")
""")

# ---- meta families: tags, annotations, annotation source contexts, source contexts
families = {
    "App": ("normalizeAppMeta", "s != nil && app != nil && app.Name != nil"),
    "Mixin": ("normalizeMixinMeta", "s != nil && app != nil && mixin != nil && app.Name != nil && mixin.Name != nil"),
    "Ep": ("normalizeEndpointMeta", "s != nil && app != nil && ep != nil && app.Name != nil"),
    "Event": ("normalizeEventMeta", "s != nil && app != nil && event != nil && app.Name != nil"),
    "Stmt": ("normalizeStatementMeta", "s != nil && app != nil && ep != nil && stmt != nil && app.Name != nil"),
    "Param": ("normalizeParamMeta", "s != nil && app != nil && ep != nil && param != nil && app.Name != nil"),
    "Type": ("normalizeTypeMeta", "s != nil && app != nil && typ != nil && app.Name != nil"),
    "Field": ("normalizeFieldMeta", "s != nil && app != nil && field != nil && app.Name != nil"),
    "View": ("normalizeViewMeta", "s != nil && app != nil && view != nil && app.Name != nil"),
}
nonnil = {k: v[1] for k, v in families.items()}
w("// Tags, annotations and source contexts of one construct: one tag row per tag, one annotation row per annotation;")
w("// the rows already present are kept and nothing else is written.")
for x, (fn, req) in families.items():
    head(fn, req, meta_slices(x))
    w("//@   mark @after:arrai/relmod.tags#1 tags")
    w("//@   mark @after:arrai/relmod.annos#1 annos")
    w(f"//@   ensures [one-row-per-tag] len(s.Tag.{x}) == old(len(s.Tag.{x})) + len(at(\"tags\", callresult))")
    w(f"//@   ensures [one-row-per-annotation] len(s.Anno.{x}) == old(len(s.Anno.{x})) + len(at(\"annos\", callresult))")
    w(f"//@   ensures [tag-rows-kept] {kept('Tag.' + x)}")
    w(f"//@   ensures [annotation-rows-kept] {kept('Anno.' + x)}")
    w(f"//@   loop 0 invariant [tags-so-far] len(s.Tag.{x}) == old(len(s.Tag.{x})) + rangeindex + 1 && rangeindex + 1 <= len(tags)")
    w(f"//@   loop 0 invariant [tag-rows-kept] {kept('Tag.' + x)}")
    w(f"//@   loop 0 invariant [annotation-rows-untouched] {kept('Anno.' + x)}")
    w(f"//@   loop 0 invariant [rows-live-in-own-arrays] {owned(*meta_slices(x))}")
    w(f"//@   loop 1 invariant [annotations-so-far] len(s.Anno.{x}) == old(len(s.Anno.{x})) + rangeindex + 1")
    w(f"//@   loop 1 invariant [annotation-rows-kept] {kept('Anno.' + x)}")
    w(f"//@   loop 1 invariant [tags-done] len(s.Tag.{x}) == old(len(s.Tag.{x})) + len(tags)")
    w(f"//@   loop 1 invariant [tag-rows-still-kept] {kept('Tag.' + x)}")
    w(f"//@   loop 1 invariant [rows-live-in-own-arrays] {owned(*meta_slices(x))}")
    w("")

# ---- row functions
w("// One row per construct, carrying the construct's own key columns; earlier rows are kept.")
head("normalizeMixin", nonnil["Mixin"], ["Mixin"] + meta_slices("Mixin"))
w(f"//@   ensures [one-row] len(s.Mixin) == old(len(s.Mixin)) + 1 && {last('Mixin')}.AppName == old(app.Name.Part) && {last('Mixin')}.MixinName == old(mixin.Name.Part)")
w(f"//@   ensures [rows-kept] {kept('Mixin')}")
w("")
head("normalizeView", nonnil["View"], ["View"] + meta_slices("View"))
w(f"//@   ensures [one-row] len(s.View) == old(len(s.View)) + 1 && {last('View')}.AppName == old(app.Name.Part) && {last('View')}.ViewName == viewName")
w(f"//@   ensures [rows-kept] {kept('View')}")
w("")
head("normalizeField", nonnil["Field"], ["Field"] + meta_slices("Field"))
w(f"//@   ensures [one-row] len(s.Field) == old(len(s.Field)) + 1 && {last('Field')}.AppName == old(app.Name.Part) && {last('Field')}.TypeName == typeName && {last('Field')}.FieldName == fieldName && {last('Field')}.FieldOpt == old(field.Opt)")
w(f"//@   ensures [rows-kept] {kept('Field')}")
w("// every constraint of the field reaches the row: a length constraint with both of its bounds, whatever they are (an")
w("// open-ended range has a minimum and no maximum), and precision / scale")
w("//@   loop 0 step [length-constraint-is-carried] c.Length != nil ==> fc.Length.Min == c.Length.Min && fc.Length.Max == c.Length.Max")
w("//@   loop 0 step [precision-and-scale-are-carried] fc.Precision == c.Precision && fc.Scale == c.Scale")
w("")

ALIAS_KINDS = ["Primitive_", "Sequence", "Set", "TypeRef"]


def tkind(k):
    return f'tagof(old(typ.Type)) == typeid(\"*sysl.Type_{k}\")'


alias_cond = " || ".join(tkind(k) for k in ALIAS_KINDS)
TYPE_SLICES = ["Type", "Table", "Alias", "Enum", "Field"] + meta_slices("Type") + meta_slices("Field")
w("// A type gives one Type row, plus one Table / Alias / Enum row according to its kind, plus one Field row per field.")
head("normalizeType", nonnil["Type"], TYPE_SLICES)
w(f"//@   ensures [one-type-row] len(s.Type) == old(len(s.Type)) + 1 && {last('Type')}.AppName == old(app.Name.Part) && {last('Type')}.TypeName == typeName && {last('Type')}.TypeOpt == old(typ.Opt)")
w(f"//@   ensures [type-rows-kept] {kept('Type')}")
w(f"//@   ensures [table-row-iff-relation] len(s.Table) == old(len(s.Table)) + ite({tkind('Relation_')}, 1, 0)")
w(f"//@   ensures [enum-row-iff-enum] len(s.Enum) == old(len(s.Enum)) + ite({tkind('Enum_')}, 1, 0)")
w(f"//@   ensures [alias-row-iff-alias-kind] len(s.Alias) == old(len(s.Alias)) + ite({alias_cond}, 1, 0)")
w("//@   ensures [one-field-row-per-field] len(s.Field) == old(len(s.Field)) + len(fields)")
w("//@   assert @call:arrai/relmod.normalizeField [own-field] arg0 == s && arg1 == app && arg2 == typeName && arg3 == field && arg4 == fieldName")
w("//@   loop 0 invariant [fields-so-far] len(s.Field) == old(len(s.Field)) + rangeindex + 1")
w(f"//@   loop 0 invariant [type-row-stays] len(s.Type) == old(len(s.Type)) + 1 && {last('Type')}.AppName == old(app.Name.Part) && {last('Type')}.TypeName == typeName && {last('Type')}.TypeOpt == old(typ.Opt)")
w(f"//@   loop 0 invariant [type-rows-stay] {kept('Type')}")
w(f"//@   loop 0 invariant [kind-rows-stay] len(s.Table) == old(len(s.Table)) + ite({tkind('Relation_')}, 1, 0) && len(s.Enum) == old(len(s.Enum)) + ite({tkind('Enum_')}, 1, 0) && len(s.Alias) == old(len(s.Alias)) + ite({alias_cond}, 1, 0)")
w(f"//@   loop 0 invariant [rows-live-in-own-arrays] {owned(*TYPE_SLICES)}")
w("")

PARAM_SLICES = ["Param"] + meta_slices("Param")
w("// A parameter gives one Param row with its name, position and location; a nil type is the 'any' primitive.")
head("normalizeParam", "s != nil && app != nil && ep != nil && app.Name != nil", PARAM_SLICES)
w(f"//@   ensures [one-row] len(s.Param) == old(len(s.Param)) + 1 && {last('Param')}.AppName == old(app.Name.Part) && {last('Param')}.EpName == old(ep.Name) && {last('Param')}.ParamName == paramName && {last('Param')}.ParamIndex == paramIndex")
w(f"//@   ensures [location-kept-when-given] paramLoc != \"\" ==> {last('Param')}.ParamLoc == paramLoc")
w(f"//@   ensures [optionality-kept] paramType != nil ==> {last('Param')}.ParamOpt == old(paramType.Opt)")
w(f"//@   ensures [untyped-is-any] paramType == nil ==> !{last('Param')}.ParamOpt && tagof({last('Param')}.ParamType) == typeid(\"relmod.TypePrimitive\")")
w(f"//@   ensures [rows-kept] {kept('Param')}")
w("//@   assert @call:arrai/relmod.normalizeParamMeta [tags-and-annotations-keyed-like-the-param-row] arg0 == s && arg1 == app && arg2 == ep && arg3 == paramName && arg4 == paramType && arg5 == param.ParamLoc && arg6 == param.ParamIndex && arg6 == paramIndex")
w("")

EVENT_SLICES = ["Event"] + meta_slices("Event") + PARAM_SLICES
w("// An event gives one Event row and one Param row per parameter, in order.")
head("normalizeEvent", nonnil["Event"], EVENT_SLICES, wellformed="forall(j, 0, len(event.Param), event.Param[j] != nil)")
w(f"//@   ensures [one-row] len(s.Event) == old(len(s.Event)) + 1 && {last('Event')}.AppName == old(app.Name.Part) && {last('Event')}.EventName == old(event.Name)")
w(f"//@   ensures [rows-kept] {kept('Event')}")
w("//@   ensures [one-param-row-per-param] len(s.Param) == old(len(s.Param)) + old(len(event.Param))")
w("//@   assert @call:arrai/relmod.normalizeParam [own-param] arg0 == s && arg1 == app && arg2 == event && arg3 == p.Name && arg4 == p.Type && arg5 == pi && arg6 == \"\"")
w("//@   loop 0 invariant [params-so-far] len(s.Param) == old(len(s.Param)) + rangeindex + 1 && rangeindex + 1 <= len(event.Param)")
w(f"//@   loop 0 invariant [event-row-stays] len(s.Event) == old(len(s.Event)) + 1 && {last('Event')}.AppName == old(app.Name.Part) && {last('Event')}.EventName == old(event.Name)")
w(f"//@   loop 0 invariant [event-rows-stay] {kept('Event')}")
w(f"//@   loop 0 invariant [rows-live-in-own-arrays] {owned(*EVENT_SLICES)}")
w("")

STMT_SLICES = ["Stmt"] + meta_slices("Stmt")
CONTAINERS = ["Cond", "Loop", "LoopN", "Foreach", "Group"]


def skind(k):
    return f'tagof(old(stmt.Stmt)) == typeid(\"*sysl.Statement_{k}\")'


w("// A statement gives one Stmt row carrying the position path it was handed (an alt gives one row per choice, each")
w("// with its own fresh path), every container kind hands each of its children to normalizeStatement with the")
w("// container's own path, and no position path that already exists is ever written (no []int array is listed).")
head("normalizeStatement", "s != nil && app != nil && ep != nil && app.Name != nil && cap(stmtIndex) == len(stmtIndex)", STMT_SLICES, wellformed="stmt != nil")
w("//@   ghostset @store:F.relmod.Schema.Stmt row")
w("//@   ghostset @call:arrai/relmod.normalizeStatement$2 descended")
w("//@   assert @store:F.relmod.Schema.Stmt [one-own-row] len(stored) == len(target.Stmt) + 1 && stored[len(stored)-1].AppName == app.Name.Part && stored[len(stored)-1].EpName == ep.Name")
w("//@   assert @store:F.relmod.Schema.Stmt [row-carries-own-path] stored[len(stored)-1].StmtIndex == stmtIndex || (stmt.GetAlt() != nil && len(stored[len(stored)-1].StmtIndex) == len(stmtIndex) + 1 && fresh(base(stored[len(stored)-1].StmtIndex)) && forall(j, 0, len(stmtIndex), stored[len(stored)-1].StmtIndex[j] == stmtIndex[j]))")
kids = " || ".join(f"(stmt.Get{k}() != nil && arg0 == stmt.Get{k}().Stmt && arg1 == stmtIndex)" for k in CONTAINERS)
w(f"//@   assert @call:arrai/relmod.normalizeStatement$2 [children-of-own-container] {kids} || (stmt.GetAlt() != nil && arg0 == choice.Stmt && len(arg1) == len(stmtIndex) + 1 && arg1[len(stmtIndex)] == i)")
w("//@   ensures [row-unless-placeholder-or-alt] result == nil && !(old(stmt.GetAction()) != nil && old(stmt.GetAction().Action) == \"...\") && old(stmt.GetAlt()) == nil ==> ghost(\"row\")")
w(f"//@   ensures [containers-descended] result == nil && old({' || '.join(f'stmt.Get{k}() != nil' for k in CONTAINERS)}) ==> ghost(\"descended\")")
w(f"//@   loop 0 invariant [rows-live-in-own-arrays] {owned(*STMT_SLICES)}")
w("//@   errprop normalizeStatement$2")
w("//@   errprop parseReturnPayload")
w("")
w("// The children loop: child i of the container is normalised with the path parent+[i], held in a slice of its own.")
head("normalizeStatement$2", "s != nil && app != nil && ep != nil && app.Name != nil", STMT_SLICES, wellformed="forall(j, 0, len(children), children[j] != nil)")
w("//@   ghostclear @iter:0 visited")
w("//@   ghostset @call:arrai/relmod.normalizeStatement visited")
w("//@   assert @call:arrai/relmod.normalizeStatement [child-gets-own-fresh-path] arg1 == s && arg2 == app && arg3 == ep && arg4 == child && fresh(base(arg5)) && cap(arg5) == len(arg5) && len(arg5) == len(parentIndex) + 1 && arg5[len(parentIndex)] == i && forall(j, 0, len(parentIndex), arg5[j] == parentIndex[j])")
w(f"//@   loop 0 invariant [rows-live-in-own-arrays] {owned(*STMT_SLICES)}")
w("//@   loop 0 step [every-child-normalised] ghost(\"visited\")")
w("//@   errprop normalizeStatement")
w("")

EP_SLICES = ["Ep"] + meta_slices("Ep") + EVENT_SLICES + STMT_SLICES
ep_row = f"len(s.Ep) == old(len(s.Ep)) + 1 && {last('Ep')}.AppName == old(app.Name.Part) && {last('Ep')}.EpName == old(ep.Name)"
w("// An endpoint: the '...' placeholder gives nothing, a pub/sub endpoint gives an Event row, anything else an Ep row,")
w("// one Param row per method / path / query parameter, and its statements with the one-element paths [i].")
head("normalizeEndpoint", nonnil["Ep"], EP_SLICES)
w("//@   ensures [placeholder-gives-nothing] old(ep.Name) == \"...\" ==> result == nil && len(s.Ep) == old(len(s.Ep)) && len(s.Event) == old(len(s.Event)) && len(s.Param) == old(len(s.Param)) && len(s.Stmt) == old(len(s.Stmt))")
w("//@   ensures [pubsub-is-an-event] old(ep.Name) != \"...\" && old(ep.IsPubsub) ==> result == nil && len(s.Event) == old(len(s.Event)) + 1 && len(s.Ep) == old(len(s.Ep))")
w(f"//@   ensures [endpoint-row] old(ep.Name) != \"...\" && !old(ep.IsPubsub) && result == nil ==> {ep_row}")
w(f"//@   ensures [endpoint-rows-kept] {kept('Ep')}")
w("//@   ensures [one-param-row-per-param] old(ep.Name) != \"...\" && !old(ep.IsPubsub) && result == nil ==> len(s.Param) == old(len(s.Param)) + old(len(ep.Param)) + ite(old(ep.RestParams) != nil, old(len(ep.RestParams.UrlParam)) + old(len(ep.RestParams.QueryParam)), 0)")
w("//@   assert @call:arrai/relmod.normalizeParam [own-param] arg0 == s && arg1 == app && arg2 == ep && arg3 == p.Name && arg4 == p.Type && arg5 == pi")
w("// a subscription endpoint refers to its event by the text that follows the arrow of its name, whatever the publisher's name looks like")
w("//@   assert @setfield:F.relmod.EndpointEvent.EventName [event-name-is-what-follows-the-arrow] contains(ep.Name, \" -> \") ==> hasPrefix(substr(ep.Name, indexOf(ep.Name, \" -> \") + 4, len(ep.Name) - indexOf(ep.Name, \" -> \") - 4), stored)")
w("//@   assert @call:arrai/relmod.normalizeStatement [top-level-statement-path] arg1 == s && arg2 == app && arg3 == ep && arg4 == stmt && fresh(base(arg5)) && len(arg5) == 1 && cap(arg5) == 1 && arg5[0] == i")
w("//@   ghostclear @iter:3 visited")
w("//@   ghostset @call:arrai/relmod.normalizeStatement visited")
w("//@   loop 3 step [every-statement-normalised] ghost(\"visited\")")
for n, (coll, done) in enumerate([
        ("ep.Param", "0"),
        ("ep.RestParams.UrlParam", "len(ep.Param)"),
        ("ep.RestParams.QueryParam", "len(ep.Param) + len(ep.RestParams.UrlParam)")]):
    w(f"//@   loop {n} invariant [params-so-far] len(s.Param) == old(len(s.Param)) + {done} + rangeindex + 1 && rangeindex + 1 <= len({coll})")
    w(f"//@   loop {n} invariant [endpoint-row-stays] {ep_row}")
    w(f"//@   loop {n} invariant [endpoint-rows-stay] {kept('Ep')}")
    w(f"//@   loop {n} invariant [rows-live-in-own-arrays] {owned(*EP_SLICES)}")
w("//@   loop 3 invariant [params-done] len(s.Param) == old(len(s.Param)) + len(ep.Param) + ite(ep.RestParams != nil, len(ep.RestParams.UrlParam) + len(ep.RestParams.QueryParam), 0)")
w(f"//@   loop 3 invariant [endpoint-row-stays] {ep_row}")
w(f"//@   loop 3 invariant [endpoint-rows-stay] {kept('Ep')}")
w(f"//@   loop 3 invariant [rows-live-in-own-arrays] {owned(*EP_SLICES)}")
w("//@   errprop parseRestPath")
w("//@   errprop normalizeStatement")
w("")

APP_SLICES = ["App"] + meta_slices("App") + ["Mixin"] + meta_slices("Mixin") + EP_SLICES + \
    [x for x in TYPE_SLICES] + ["View"] + meta_slices("View")
app_row = f"len(s.App) == old(len(s.App)) + 1 && {last('App')}.AppName == old(app.Name.Part) && {last('App')}.AppLongName == old(app.LongName)"
w("// An application gives one App row, and every mixin, endpoint, type and view of it is handed to its normaliser.")
head("normalizeApp", nonnil["App"], APP_SLICES)
w(f"//@   ensures [one-row] result == nil ==> {app_row}")
w(f"//@   ensures [rows-kept] {kept('App')}")
w("//@   ensures [one-mixin-row-per-mixin] result == nil ==> len(s.Mixin) == old(len(s.Mixin)) + old(len(app.Mixin2))")
w("//@   ensures [one-view-row-per-view] result == nil ==> len(s.View) == old(len(s.View)) + old(len(app.Views))")
w("//@   ensures [one-type-row-per-type] result == nil ==> len(s.Type) == old(len(s.Type)) + old(len(app.Types))")
w("//@   assert @call:arrai/relmod.normalizeMixin [own-mixin] arg0 == s && arg1 == app && arg2 == mixin")
w("//@   assert @call:arrai/relmod.normalizeEndpoint [own-endpoint] arg1 == s && arg2 == app && arg3 == ep")
w("//@   assert @call:arrai/relmod.normalizeType [own-type] arg0 == s && arg1 == app && arg2 == typ && arg3 == typeName")
w("//@   assert @call:arrai/relmod.normalizeView [own-view] arg0 == s && arg1 == app && arg2 == view && arg3 == viewName")
w("//@   ghostclear @iter:1 visited")
w("//@   ghostset @call:arrai/relmod.normalizeEndpoint visited")
w("//@   loop 1 step [every-endpoint-normalised] ghost(\"visited\")")
counts = {
    0: "len(s.Mixin) == old(len(s.Mixin)) + rangeindex + 1 && rangeindex + 1 <= len(app.Mixin2)",
    1: "len(s.Mixin) == old(len(s.Mixin)) + len(app.Mixin2)",
    2: "len(s.Mixin) == old(len(s.Mixin)) + len(app.Mixin2) && len(s.Type) == old(len(s.Type)) + rangeindex + 1",
    3: "len(s.Mixin) == old(len(s.Mixin)) + len(app.Mixin2) && len(s.Type) == old(len(s.Type)) + len(app.Types) && len(s.View) == old(len(s.View)) + rangeindex + 1",
}
for n in range(4):
    w(f"//@   loop {n} invariant [counts-so-far] {counts[n]}")
    w(f"//@   loop {n} invariant [app-row-stays] {app_row}")
    w(f"//@   loop {n} invariant [app-rows-stay] {kept('App')}")
    w(f"//@   loop {n} invariant [rows-live-in-own-arrays] {owned(*APP_SLICES)}")
w("//@   errprop normalizeEndpoint")
w("")

w("// The module: imports first, then every application in alphabetical order of its map key.")
w("//@ func normalizeModule")
w("//@   requires [schema] s != nil")
w("//@   requires [model-wellformed] m != nil")
w("//@   assert @call:arrai/relmod.normalizeApp [own-application] arg1 == s && arg2 == m.Apps[name]")
w("//@   ghostclear @iter:1 visited")
w("//@   ghostset @call:arrai/relmod.normalizeApp visited")
w("//@   loop 1 step [every-application-normalised] ghost(\"visited\")")
w("//@   errprop normalizeApp")
w("")
w("//@ func Normalize")
w("//@   requires [model-wellformed] m != nil")
w("//@   ensures [schema-or-error] (result1 == nil) == (result0 != nil)")
w("//@   errprop withPayloadParser")
w("//@   errprop normalizeModule")
w("")

open("/repo/pkg/arrai/relmod/zz_verif_contracts.go", "w").write("\n".join(out) + "\n")
