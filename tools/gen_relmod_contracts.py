#!/usr/bin/env python3
"""Writes /repo/pkg/arrai/relmod/zz_verif_contracts.go (comment-only, build tag verif).

The relmod normalisers are nine near-identical families (App, Mixin, Ep, Event, Stmt, Param, Type, Field, View);
the contracts are written once here and expanded, so that the families stay in step. The generated file is what the
verifier reads; this script is only how it was typed."""
import sys

def meta(x):
    return ", ".join(f"s.{p}.{x}, elems(s.{p}.{x})" for p in ("Tag", "Anno", "Src.Anno", "Src"))

def row(slc):
    return f"s.{slc}, elems(s.{slc})"

out = []
w = out.append
w("""//go:build verif

// Contracts for the deductive verifier in /verif (govc). Comment-only: this file adds no code.
// Written by /verif/tools/gen_relmod_contracts.py.
package relmod

// ---- C17: the relational image has one row per construct, and nothing else changes

// Helpers that only read the model and build fresh values (they may panic on attribute shapes they do not know).
//@ func tags
//@   pure
//@   maypanic
//@ func annos
//@   pure
//@   maypanic
//@   ensures result != nil
//@ func relmodSourceContexts
//@   pure
//@   ensures [one-per-context] len(result) == len(contexts)
//@   loop 0 invariant [count] len(srcs) == rangeindex + 1 && rangeindex + 1 <= len(contexts)
//@ func relmodSourceContext
//@   pure
//@   maypanic
//@ func parseFieldType
//@   pure
//@   maypanic
//@ func parseRestPath
//@   pure
//@   ensures [never-fails] result1 == nil
//@ func parseReturnPayload
//@   pure
//@   maypanic
//@   trusted
""")

# ---- meta families: tags, annotations, annotation source contexts, source contexts
families = {
    # X: (function, params-nonnil, owner attr expr, extra row fields {RowField: expr})
    "App": ("normalizeAppMeta", "app", "app.Attrs", {"AppName": "app.Name.Part"}),
    "Mixin": ("normalizeMixinMeta", "mixin", "mixin.Attrs", {"AppName": "app.Name.Part", "MixinName": "mixin.Name.Part"}),
    "Ep": ("normalizeEndpointMeta", "ep", "ep.Attrs", {"AppName": "app.Name.Part", "EpName": "ep.Name"}),
    "Event": ("normalizeEventMeta", "event", "event.Attrs", {"AppName": "app.Name.Part", "EventName": "event.Name"}),
    "Stmt": ("normalizeStatementMeta", "stmt", "stmt.Attrs", {"AppName": "app.Name.Part", "EpName": "ep.Name", "StmtIndex": "stmtIndex"}),
    "Param": ("normalizeParamMeta", "param", "param.Attrs", {"AppName": "app.Name.Part", "EpName": "ep.Name", "ParamName": "paramName", "ParamLoc": "loc", "ParamIndex": "index"}),
    "Type": ("normalizeTypeMeta", "typ", "typ.Attrs", {"AppName": "app.Name.Part", "TypeName": "typeName"}),
    "Field": ("normalizeFieldMeta", "field", "field.Attrs", {"AppName": "app.Name.Part", "TypeName": "typeName", "FieldName": "fieldName"}),
    "View": ("normalizeViewMeta", "view", "view.Attrs", {"AppName": "app.Name.Part", "ViewName": "viewName"}),
}
nonnil = {
    "App": "s != nil && app != nil && app.Name != nil",
    "Mixin": "s != nil && app != nil && mixin != nil && app.Name != nil && mixin.Name != nil",
    "Ep": "s != nil && app != nil && ep != nil && app.Name != nil",
    "Event": "s != nil && app != nil && event != nil && app.Name != nil",
    "Stmt": "s != nil && app != nil && ep != nil && stmt != nil && app.Name != nil",
    "Param": "s != nil && app != nil && ep != nil && param != nil && app.Name != nil",
    "Type": "s != nil && app != nil && typ != nil && app.Name != nil",
    "Field": "s != nil && app != nil && field != nil && app.Name != nil",
    "View": "s != nil && app != nil && view != nil && app.Name != nil",
}
w("// Tags, annotations and source contexts of one construct: one tag row per tag, one annotation row per annotation,")
w("// each carrying the owner's key columns; the rows already present are kept and nothing else is written.")
for x, (fn, owner, attrs, cols) in families.items():
    w(f"//@ func {fn}")
    w(f"//@   requires {nonnil[x]}")
    w(f"//@   modifies {meta(x)}")
    w(f"//@   mark @after:arrai/relmod.tags#1 tags")
    w(f"//@   mark @after:arrai/relmod.annos#1 annos")
    w(f"//@   ensures [one-row-per-tag] len(s.Tag.{x}) == old(len(s.Tag.{x})) + len(at(\"tags\", callresult))")
    w(f"//@   ensures [one-row-per-annotation] len(s.Anno.{x}) == old(len(s.Anno.{x})) + len(at(\"annos\", callresult))")
    w(f"//@   ensures [tag-rows-kept] forall(i, 0, old(len(s.Tag.{x})), s.Tag.{x}[i] == old(s.Tag.{x}[i]))")
    w(f"//@   ensures [annotation-rows-kept] forall(i, 0, old(len(s.Anno.{x})), s.Anno.{x}[i] == old(s.Anno.{x}[i]))")
    w(f"//@   loop 0 invariant [tags-so-far] len(s.Tag.{x}) == old(len(s.Tag.{x})) + rangeindex + 1 && rangeindex + 1 <= len(tags)")
    w(f"//@   loop 0 invariant [tag-rows-kept] forall(i, 0, old(len(s.Tag.{x})), s.Tag.{x}[i] == old(s.Tag.{x}[i]))")
    w(f"//@   loop 0 invariant [annotation-rows-untouched] forall(i, 0, old(len(s.Anno.{x})), s.Anno.{x}[i] == old(s.Anno.{x}[i]))")
    w(f"//@   loop 1 invariant [annotations-so-far] len(s.Anno.{x}) == old(len(s.Anno.{x})) + rangeindex + 1")
    w(f"//@   loop 1 invariant [annotation-rows-kept] forall(i, 0, old(len(s.Anno.{x})), s.Anno.{x}[i] == old(s.Anno.{x}[i]))")
    w(f"//@   loop 1 invariant [tags-done] len(s.Tag.{x}) == old(len(s.Tag.{x})) + len(tags)")
    w(f"//@   loop 1 invariant [tag-rows-still-kept] forall(i, 0, old(len(s.Tag.{x})), s.Tag.{x}[i] == old(s.Tag.{x}[i]))")
    w("")
open("/repo/pkg/arrai/relmod/zz_verif_contracts.go", "w").write("\n".join(out) + "\n")
