#!/bin/bash
# run every claimed check (quick tier by default; pass --thorough for the thorough tier), 4 at a time
cd "$(dirname "$0")/.."
tier="$1"
ls props/*.json | sed 's#props/##; s#.json##' | xargs -P 4 -I{} sh -c 'bin/check {} '"$tier"' > /tmp/runall_{}.log 2>&1; echo "{} exit=$? $(tail -1 /tmp/runall_{}.log)"'
